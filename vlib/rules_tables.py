"""TABLES (T1..T7) and VARIANTS: literal tables extracted from the type-checked program and
compared with each other (writer/reader agreement, sibling tables)."""
from . import hir
from .core import Out

TT = "spl_frontend::tokens::TokenType"
OP = "spl_frontend::ast::Operator"


def last(path):
    return path.rsplit("::", 1)[-1]


def find_fn(prog, name, self_suffix=None, trait=None, crate=None):
    res = []
    for b in prog.bodies():
        if b["name"] != name:
            continue
        c = b["_crate"]
        if crate and c.name != crate:
            continue
        if self_suffix is not None:
            if "impl_self" not in b:
                continue
            st_ = c.tstr(b["impl_self"])
            # `ast::Operator` also names `ast::operator::Operator` (the type moved into a submodule of the same module)
            mod_, _, nm_ = self_suffix.rpartition("::")
            if not (st_.endswith(self_suffix) or (mod_ and st_.endswith("::" + nm_) and (st_.startswith(mod_ + "::") or ("::" + mod_ + "::") in st_))):
                continue
        if trait is not None and b.get("impl_trait") != trait:
            continue
        res.append(b)
    return res


def const_value(prog, path):
    b = prog.body(path)
    if b is None:
        return None
    return hir.lit_value(b["body"])


def value_of(prog, e):
    """Literal-ish value of an arm body: literal, const, Some(x)/Ok(x), unit variant name, bool."""
    e = hir.strip(e)
    k = e.get("k")
    if k == "Lit":
        return e["lit"].get("v")
    if k == "Path":
        r = e["res"]
        if r.get("k") == "Def":
            if r["dk"].startswith("Const") or r["dk"].startswith("AssocConst"):
                return const_value(prog, r["p"])
            if r.get("ctor_of"):
                return ("variant", last(r["ctor_of"]))
        return None
    if k == "Call":
        d = hir.path_def(e["f"])
        if d and d.get("ctor_of") and last(d["ctor_of"]) in ("Some", "Ok") and len(e["args"]) == 1:
            return value_of(prog, e["args"][0])
        return None
    if k == "BlockExpr":
        b = e["b"]
        if b.get("expr") is not None:
            return value_of(prog, b["expr"])
    if k == "Ret" and e.get("e") is not None:
        # `Variant => return false,` in a match whose other arms compute something: the arm's answer is the returned value
        return value_of(prog, e["e"])
    return None


def match_tables(prog, body, adt):
    """All `match` expressions in body whose arms name variants of `adt`.
    Returns list of (match node, {variant: value}, default value or None, has_default)."""
    out = []
    for m in hir.nodes(body["body"], "Match"):
        if m["src"] != "match":
            continue
        table = {}
        default = None
        has_default = False
        relevant = False
        for arm in m["arms"]:
            for alt in hir.pat_alternatives(arm["pat"]):
                v = hir.pat_variant(alt)
                if v and v.startswith(adt + "::"):
                    relevant = True
                    table[last(v)] = value_of(prog, arm["body"])
                elif hir.is_wild(alt):
                    has_default = True
                    default = value_of(prog, arm["body"])
        if relevant:
            out.append((m, table, default, has_default))
    return out


def variants_of(prog, adt):
    a = prog.adts.get(adt)
    return [v["name"] for v in a["variants"]] if a else []


def eval_for_variant(prog, body, adt, variant, depth=0, result_enum=None):
    """Value of the method `body` (fn(&self) of enum `adt`) for self = `variant`, computed from the code: nested matches on self and
    on values other methods of the enum return (`match self.class() { Keyword => .., Symbol => match self { .. } }`), small enums of
    the module and their methods (`LookAhead::OneChar.len()`), matches!, constants.  -> literal value | ("variant", path) | None"""
    c = body["_crate"]
    self_ids = set()
    if body["params"] and body["params"][0].get("k") == "Binding":
        self_ids.add(body["params"][0]["id"])

    # the enum value may be the first parameter itself (a method of the enum, a helper handed `&token.token_type`) or the one field of
    # that type of the first parameter (`token: &Token`)
    field_mode = None
    if body["params"] and body["params"][0].get("k") == "Binding" and result_enum is not None:
        pt_ = hir.adt_path(c, body["params"][0]["bt"])
        if pt_ != adt:
            flds_ = []
            for cr_ in (prog.front, prog.lsp):
                ad_ = cr_.adts.get(pt_) if pt_ else None
                if ad_ and ad_.get("k") == "struct" and ad_.get("variants"):
                    flds_ = [f_["name"] for f_ in ad_["variants"][0].get("fields") or [] if hir.adt_path(cr_, f_.get("t")) == adt]
                    break
            field_mode = flds_[0] if len(flds_) == 1 else "?"

    def is_self(e):
        e = hir.strip_ref(hir.strip(e))
        while e.get("k") == "Unary" and e.get("op") in ("*", "Deref"):
            e = hir.strip_ref(hir.strip(e["e"]))
        if field_mode is not None:
            if e.get("k") == "Field" and e["name"] == field_mode:
                pl = hir.path_local(hir.strip_ref(hir.strip(e["base"])))
                return bool(pl) and pl["id"] in self_ids
            return False
        pl = hir.path_local(e)
        return bool(pl) and pl["id"] in self_ids

    def is_carrier(e):
        """the first parameter itself, in field mode (`token`)"""
        if field_mode is None:
            return False
        pl = hir.path_local(hir.strip_ref(hir.strip(e)))
        return bool(pl) and pl["id"] in self_ids

    def pat_hits(p, val):
        """does pattern p match the value (a variant of some enum, payload unknown)?  True / False / None"""
        p = hir.pat_strip(p)
        k = p.get("k")
        if k == "Or":
            vs = [pat_hits(q, val) for q in p["pats"]]
            return True if any(v is True for v in vs) else (False if all(v is False for v in vs) else None)
        if k == "Wild" or (k == "Binding" and not p.get("sub")):
            return True
        if k == "Binding":
            return pat_hits(p["sub"], val)
        v = hir.pat_variant(p)
        if v is not None and isinstance(val, tuple) and val[0] == "variant":
            return v == val[1]
        if k == "Lit" and not isinstance(val, tuple):
            return str(p["lit"].get("v")) == str(val)
        return None

    NONE_V = ("variant", "core::option::Option::None")

    class _Return(Exception):
        def __init__(self, v):
            self.v = v

    class _Unknown(Exception):
        pass

    env = {}

    def bind(p, val):
        """bind pattern p to val; True if it matches, False if not, raises _Unknown if that cannot be told"""
        p = hir.pat_strip(p)
        k = p.get("k")
        if k == "Wild":
            return True
        if k == "Binding":
            env[p["id"]] = val
            return bind(p["sub"], val) if p.get("sub") else True
        if k == "TupleStruct":
            v = hir.pat_variant(p) or ""
            if last(v) == "Some" and v.startswith("core::"):
                if val == NONE_V:
                    return False
                if val is None:
                    raise _Unknown()
                return all(bind(q, val) for q in p["pats"])
        h = pat_hits(p, val)
        if h is None:
            raise _Unknown()
        return h

    def ev(e, d):
        e = hir.strip(e)
        k = e.get("k")
        if d > 14:
            return None
        if k == "Lit":
            return e["lit"].get("v")
        if is_self(e):
            return ("variant", adt + "::" + variant)
        if k in ("Try",) and result_enum is not None:
            v_ = ev(e["e"], d + 1)
            if v_ == NONE_V:
                raise _Return(NONE_V)
            return v_
        if k == "Unary" and e.get("op") in ("!", "Not") and result_enum is not None:
            v_ = ev(e["e"], d + 1)
            return (not v_) if v_ in (True, False) else None
        if k == "Binary" and e.get("op") in ("&&", "||", "And", "Or") and result_enum is not None:
            a_, b_ = ev(e["l"], d + 1), None
            if e["op"] in ("&&", "And"):
                if a_ is False:
                    return False
                b_ = ev(e["r"], d + 1)
                return (a_ and b_) if a_ in (True, False) and b_ in (True, False) else (False if b_ is False else None)
            if a_ is True:
                return True
            b_ = ev(e["r"], d + 1)
            return (a_ or b_) if a_ in (True, False) and b_ in (True, False) else (True if b_ is True else None)
        if k == "Path":
            pl = hir.path_local(e)
            if pl and pl["id"] in env:
                return env[pl["id"]]
            r = e["res"]
            if r.get("k") == "Def":
                if str(r.get("dk", "")).startswith("Const") or str(r.get("dk", "")).startswith("AssocConst"):
                    return const_value(prog, r["p"])
                if r.get("ctor_of"):
                    return ("variant", r["ctor_of"])
            return None
        if k == "Call":
            dd = hir.path_def(e["f"])
            if dd and dd.get("ctor_of") and last(dd["ctor_of"]) in ("Some", "Ok") and len(e["args"]) == 1:
                return ev(e["args"][0], d + 1)
            if result_enum is not None:
                hb = hir.local_callee_body(prog, e)
                if hb is not None and hb["_crate"] is c and e["args"] and depth < 4 and (is_self(e["args"][0]) or is_carrier(e["args"][0])):
                    r_ = eval_for_variant(prog, hb, adt, variant, depth + 1, result_enum)
                    if r_ is not None:
                        return r_
                # a constructor-like helper: the one argument that is a value of the result enum is what the answer carries
                vals_ = [ev(a_, d + 1) for a_ in e["args"]]
                cands_ = [v_ for v_ in vals_ if isinstance(v_, tuple) and v_[0] == "variant" and v_[1].rsplit("::", 1)[0].endswith(result_enum)]
                if len(cands_) == 1:
                    return cands_[0]
            return None
        if k == "Ret":
            raise _Return(ev(e["e"], d + 1) if e.get("e") is not None else None)
        if k in ("BlockExpr", "Block"):
            b_ = e["b"] if k == "BlockExpr" else e
            for st in b_.get("stmts") or []:
                if st.get("k") == "Item":
                    continue
                inner = hir.stmt_inner(st)
                if inner is not None:
                    ev(inner, d + 1)
                elif st.get("k") == "Let" and st.get("init") is not None:
                    try:
                        if not bind(st["pat"], ev(st["init"], d + 1)) and st.get("els") is not None:
                            ev(st["els"], d + 1)
                    except _Unknown:
                        raise
                else:
                    raise _Unknown()
            return ev(b_["expr"], d + 1) if b_.get("expr") is not None else None
        if k == "If":
            cond = hir.strip(e["cond"])
            if cond.get("k") == "LetExpr":
                taken = bind(cond["pat"], ev(cond["init"], d + 1))
            else:
                cv = ev(cond, d + 1)
                if cv not in (True, False):
                    raise _Unknown()
                taken = cv
            if taken:
                return ev(e["then"], d + 1)
            return ev(e["else"], d + 1) if e.get("else") is not None else None
        if k == "Match":
            sv = ev(e["scrut"], d + 1)
            if sv is None:
                return None
            for arm in e["arms"]:
                try:
                    h = bind(arm["pat"], sv)
                except _Unknown:
                    return None
                if h and arm.get("guard") is not None:
                    if result_enum is None:
                        return None
                    g_ = ev(arm["guard"], d + 1)
                    if g_ is False:
                        continue
                    if g_ is not True:
                        return None
                if h:
                    return ev(arm["body"], d + 1)
            return None
        if k == "MethodCall" and result_enum is not None and e["m"] in ("into", "clone", "to_owned", "then_some", "then", "map", "filter", "copied", "cloned"):
            rv = ev(e["recv"], d + 1)
            if e["m"] in ("into", "clone", "to_owned", "copied", "cloned"):
                return rv
            if e["m"] in ("then_some", "then") and e["args"]:
                if rv is False:
                    return NONE_V
                if rv is not True:
                    return None
                a0_ = hir.strip(e["args"][0])
                return ev(a0_["body"] if a0_.get("k") == "Closure" else a0_, d + 1)
            if e["m"] == "map" and e["args"]:
                if rv == NONE_V or rv is None:
                    return rv
                a0_ = hir.strip(e["args"][0])
                if a0_.get("k") == "Closure" and len(a0_.get("params") or []) == 1:
                    bind(a0_["params"][0], rv)
                    r2_ = ev(a0_["body"], d + 1)
                    return r2_ if r2_ is not None else rv
                return rv
            return None
        if k == "MethodCall":
            rv = ev(e["recv"], d + 1)
            if isinstance(rv, tuple) and rv[0] == "variant" and not e["args"]:
                hb = hir.local_callee_body(prog, e)
                enum_p = rv[1].rsplit("::", 1)[0]
                if hb is not None and "impl_self" in hb and hir.adt_path(hb["_crate"], hb["impl_self"]) == enum_p:
                    return eval_for_variant(prog, hb, enum_p, last(rv[1]), depth + 1) if depth < 4 else None
            return None
        if k == "Cast":
            return ev(e["e"], d + 1)
        return None
    try:
        return ev(body["body"], 0)
    except _Return as r_:
        return r_.v
    except _Unknown:
        return None


def _single_table(out, prog, name, self_suffix, adt, trait=None):
    bs = find_fn(prog, name, self_suffix, trait)
    if len(bs) != 1:
        out.missing("%s::%s" % (self_suffix, name))
        return None
    ts = match_tables(prog, bs[0], adt)
    whole = hir.strip(bs[0]["body"])
    if whole.get("k") == "BlockExpr" and all(s_.get("k") == "Item" for s_ in whole["b"].get("stmts") or []) and whole["b"].get("expr") is not None:
        whole = hir.strip(whole["b"]["expr"])      # (`use TokenType::*;` in front of the match)
    if len(ts) == 1 and whole is not ts[0][0] and not (whole.get("k") == "Match" and "matches!" in (whole.get("mx") or [])):
        # the one match on self is only a part of the function (early returns in front of it, a wrapper around it)
        ts = []
    if len(ts) != 1:
        # not one flat `match self`: the table is computed (a classification first, nested matches, a small enum for the answer):
        # evaluated variant by variant
        table = {}
        for v in variants_of(prog, adt):
            val = eval_for_variant(prog, bs[0], adt, v)
            if val is not None:
                table[v] = val
        if len(table) >= max(1, len(variants_of(prog, adt)) // 2):
            return bs[0], (bs[0]["body"], table, None, False)
        out.missing("match table in %s::%s" % (self_suffix, name))
        return None
    return bs[0], ts[0]


def token_tables(prog, out):
    """Extract the TokenType tables; returns dict or None (anchors reported missing)."""
    t = {}
    x = _single_table(out, prog, "as_static_str", "TokenType", TT)
    if x is None:
        return None
    t["static_body"], (_, table, _, _) = x
    t["static"] = {k: v for k, v in table.items() if isinstance(v, str)}
    x = _single_table(out, prog, "look_ahead", "TokenType", TT)
    if x is None:
        return None
    t["la_body"], (_, table, default, has_default) = x
    # the table may answer with the variants of a small enum of its own (`LookAhead::{Nothing, OneChar}`) whose numeric meaning is
    # given by one match table over that enum (`fn len(self) -> usize`): composed here
    enum_vals = {}
    c_ = t["la_body"]["_crate"]
    rt_ = hir.adt_path(c_, t["la_body"]["sig_out"]) if "sig_out" in t["la_body"] else None
    if rt_ and rt_.startswith("spl_frontend::") and rt_ in prog.adts:
        for fb in c_.bodies:
            if fb["k"] != "assoc_fn" or "impl_self" not in fb or hir.adt_path(c_, fb["impl_self"]) != rt_:
                continue
            for _m, tb_, _d, _h in match_tables(prog, fb, rt_):
                if tb_ and all(isinstance(x_, str) and x_.isdigit() for x_ in tb_.values()) and len(tb_) == len(prog.adts[rt_]["variants"]):
                    enum_vals = {k_: v_ for k_, v_ in tb_.items()}
    la = {}
    for v in variants_of(prog, TT):
        val = table.get(v, default if has_default else None)
        if isinstance(val, tuple) and val[0] == "variant":
            val = enum_vals.get(val[1])
        la[v] = int(val) if isinstance(val, str) and val.isdigit() else None
    t["la"] = la
    for fn in ("is_symbol", "is_keyword"):
        x = _single_table(out, prog, fn, "TokenType", TT)
        if x is None:
            return None
        _, (_, table, default, _) = x
        t[fn] = sorted(k for k, v in table.items() if v is True)
    return t


def lex_order(prog, out):
    """Flattened alternatives of <Token as Lexer>::lex: list of (kind, name, node)."""
    bs = find_fn(prog, "lex", "tokens::Token", "spl_frontend::lexer::Lexer")
    if len(bs) != 1:
        out.missing("<Token as Lexer>::lex")
        return None, None
    body = bs[0]
    c = body["_crate"]
    alts = [n for n in hir.nodes(body["body"], "Call") if (hir.callee(n) or "").endswith("nom::branch::alt")]
    if not alts:
        out.missing("alt(..) in <Token as Lexer>::lex")
        return None, None

    def flatten(call):
        res = []
        tup = hir.strip(call["args"][0])
        for el in tup.get("es", []):
            el = hir.strip(el)
            if el.get("k") == "Call" and (hir.callee(el) or "").endswith("nom::branch::alt"):
                res.extend(flatten(el))
                continue
            # an alternative that names TokenType variants is a static-token lexer (macro expansion or helper call);
            # it is a *keyword* lexer iff it carries a boundary look-ahead (`peek`), found in the expansion or in the helper
            vs = set()
            for n in hir.nodes(el, "Path"):
                r = n["res"]
                if r.get("ctor_of", "").startswith(TT + "::"):
                    vs.add(last(r["ctor_of"]))
            if vs:
                guarded = any(n.get("k") == "Call" and (hir.callee(n) or "").endswith("nom::combinator::peek")
                              for n in hir.nodes_deep(prog, el, 3, values=True))
                res.append(("lex_keyword" if guarded else "lex_symbol", "|".join(sorted(vs)), el))
            else:
                d = hir.path_def(el)
                name = None
                if d:
                    p = d.get("rp") or d["p"]
                    impl = c.impls.get(p.rsplit("::", 1)[0])
                    if impl:
                        name = last(c.tstr(impl["self"]))
                    else:
                        fb = prog.body(p) if p.startswith("spl_frontend::lexer") else None
                        if fb is not None and fb["k"] == "fn" and p not in expanding:
                            # a group of alternatives in a function of its own (`fn lex_any_symbol(i) { alt((..))(i) }`): its
                            # alternatives take the place of the element, in order
                            inner = [n for n in hir.nodes(fb["body"], "Call") if (hir.callee(n) or "").endswith("nom::branch::alt")]
                            if inner:
                                expanding.add(p)
                                res.extend(flatten(inner[0]))
                                expanding.discard(p)
                                continue
                            # a literal lexer written as a plain function: named after the one token class it builds
                            built = set(last(n["res"]["ctor_of"]) for n in hir.nodes_deep(prog, fb["body"], 1, crate=c)
                                        if n.get("k") == "Path" and (n["res"].get("ctor_of") or "").startswith(TT + "::"))
                            if len(built) == 1:
                                name = built.pop()
                res.append(("lexer", name or "?", el))
        return res

    expanding = set()

    # outermost alt = the one that is not nested in another alt's tuple: take the first in pre-order
    return body, flatten(alts[0])


def rule_tables(prog):
    out = Out("TABLES")
    t = token_tables(prog, out)
    body, order = lex_order(prog, out)
    if t is None or order is None:
        return out
    c = prog.front
    static = t["static"]
    la = t["la"]
    loc_lex = c.loc(body["sp"])
    pos = {}
    for i, (kind, name, node) in enumerate(order):
        pos.setdefault(name, []).append((i, kind, node))

    symbols = [v for v in t["is_symbol"]]
    # T1: longest match — if s is a proper prefix of t, t must be tried first
    for s in symbols:
        for u in symbols:
            if s != u and s in static and u in static and static[u].startswith(static[s]):
                ok = (s in pos and u in pos and pos[u][0][0] < pos[s][0][0])
                out.add("<Token as Lexer>::lex", "T1 longest-match %s(%r) before %s(%r)" % (u, static[u], s, static[s]),
                        ok, c.loc(pos[s][0][2]["sp"]) if s in pos else loc_lex,
                        "`%s` must be tried before its prefix `%s` in alt(..)" % (static[u], static[s]), ("T1", "lexer"))
    # T2: look-ahead table
    for s in symbols:
        need = 0
        why = ""
        for u in symbols:
            if s != u and s in static and u in static and static[u].startswith(static[s]):
                d = len(static[u]) - len(static[s])
                if d > need:
                    need, why = d, "prefix of `%s`" % static[u]
        if static.get(s) == "/":
            need, why = max(need, 1), "prefix of the comment introducer `//`"
        if need:
            ok = la.get(s) is not None and la[s] >= need
            out.add("TokenType::look_ahead", "T2 look_ahead(%s) >= %d" % (s, need), ok, c.loc(t["la_body"]["sp"]),
                    "`%s` is a %s: a change right behind it can turn it into another token, so its look-ahead must be >= %d (is %s)"
                    % (static[s], why, need, la.get(s)), ("T2", "lexer"))
    for v in t["is_keyword"] + ["Ident", "Int", "Hex", "Char"]:
        ok = la.get(v) is not None and la[v] >= 1
        out.add("TokenType::look_ahead", "T2 look_ahead(%s) >= 1" % v, ok, c.loc(t["la_body"]["sp"]),
                "open-ended token class `%s` can be extended by the next character; look-ahead must be >= 1 (is %s)"
                % (v, la.get(v)), ("T2", "lexer"))
    # the catch-all class: a character that is lexed as Unknown but is also the opener of a longer lexeme (the tick of a character
    # literal) becomes that lexeme as soon as something follows
    openers = set()
    for lb in c.bodies:
        if lb["name"] == "lex" and "impl_trait" in lb and "/tests" not in c.file_of(lb["sp"]) and any(
                x.get("k") == "Path" and x["res"].get("ctor_of") == TT + "::Char" for x in hir.nodes(lb["body"])):
            for call in hir.nodes(lb["body"], "Call"):
                if (hir.callee(call) or "").endswith("complete::tag") and call["args"]:
                    v = hir.lit_value(hir.strip(call["args"][0]))
                    if isinstance(v, str) and len(v) == 1 and v not in static.values():
                        openers.add(v)
                if (hir.callee(call) or "").endswith("complete::char") and call["args"]:
                    v = hir.lit_value(hir.strip(call["args"][0]))
                    if isinstance(v, str) and len(v) == 1 and v not in static.values():
                        openers.add(v)
    if openers:
        ok = la.get("Unknown") is not None and la["Unknown"] >= 1
        out.add("TokenType::look_ahead", "T2 look_ahead(Unknown) >= 1", ok, c.loc(t["la_body"]["sp"]),
                "%s alone is lexed as Unknown but opens a character literal: text typed behind it turns it into a Char token, so it must be "
                "re-lexed when the change starts at its end (look_ahead is %s)" % (sorted(openers), la.get("Unknown")), ("T2", "lexer"))
    # T2 (bound): lexer::update cuts the unaffected head with `partition(|t| !t.is_affected_by(start))` and then treats it as a
    # *prefix* of the token sequence.  That is only right if `end + look_ahead > start` is monotone along the tokens; ends grow by at
    # least one per token, so every look-ahead must be 0 or 1 (with 2, a token is affected while the one-character token behind it is not)
    upd = prog.body("spl_frontend::lexer::update")
    uses_partition = upd is not None and any(x.get("k") == "MethodCall" and x["m"] == "partition" for x in hir.nodes(upd["body"]))
    if uses_partition:
        too_big = sorted(k_ for k_, v_ in la.items() if isinstance(v_, int) and v_ > 1)
        out.add("TokenType::look_ahead", "T2 every look-ahead is 0 or 1 (the unaffected head is cut off by partition)", not too_big,
                c.loc(t["la_body"]["sp"]), "look_ahead(%s) > 1: `partition` by is_affected_by no longer yields a prefix - an affected token in front "
                "of an unaffected one-character token is dropped from the re-lexed window and disappears" % ", ".join(too_big), ("T2", "lexer"))
    # T2 (use): the incremental lexer decides "does this change touch that token" with the table's value.  A function between the
    # table and that decision which answers with a number of its own for some tokens (a wrapper with literal arms) takes tokens out of
    # the table again
    la_path = t["la_body"]["p"]
    for fb in c.bodies:
        if "/tests" in c.file_of(fb["sp"]) or fb["p"] == la_path or fb["k"] == "closure":
            continue
        uses = [x for x in hir.nodes(fb["body"]) if x.get("k") in ("MethodCall", "Call") and (hir.callee(x) or "") == la_path]
        if not uses:
            continue
        sig_out = c.tstr(fb.get("sig_out", 0) or 0) if "sig_out" in fb else ""

        def _has_la(e_):
            return any(x.get("k") in ("MethodCall", "Call") and (hir.callee(x) or "") == la_path for x in hir.nodes(e_ or {}))

        def _int_lit(e_):
            e_ = hir.strip(e_ or {})
            if e_.get("k") == "BlockExpr" and not e_["b"]["stmts"] and e_["b"].get("expr") is not None:
                e_ = hir.strip(e_["b"]["expr"])
            return e_.get("k") == "Lit" and e_["lit"].get("k") == "int"

        if sig_out == "bool":
            # the decision itself (`end + look_ahead() > index`): a choice between the table's value and a number of its own
            own = []
            for m_ in hir.nodes(fb["body"], "Match"):
                if any(_has_la(a_["body"]) for a_ in m_["arms"]):
                    own += [a_ for a_ in m_["arms"] if _int_lit(a_["body"])]
            for i_ in hir.nodes(fb["body"], "If"):
                if (_has_la(i_.get("then")) and _int_lit(i_.get("else"))) or (_has_la(i_.get("else")) and _int_lit(i_.get("then"))):
                    own.append(i_)
            out.add(fb["d"], "T2 the look-ahead that is used is the table's value, for every token", not own, c.loc((own[0] if own else fb)["sp"]),
                    "`%s` decides with the table's look-ahead but uses a number of its own for some tokens: whatever the table says for those "
                    "tokens (a comment ended by a lone `\\r` grows when `\\n` is typed behind it) is overridden" % fb["d"], ("T2", "lexer"))
            continue
        own = []
        for m_ in hir.nodes(fb["body"], "Match"):
            for a_ in m_["arms"]:
                if hir.strip(a_["body"]).get("k") == "Lit":
                    own.append(a_)
        for i_ in hir.nodes(fb["body"], "If"):
            for br in (i_.get("then"), i_.get("else")):
                br_ = hir.strip(br or {})
                tail_ = br_["b"].get("expr") if br_.get("k") == "BlockExpr" else None
                if tail_ is not None and hir.strip(tail_).get("k") == "Lit":
                    own.append(i_)
        out.add(fb["d"], "T2 the look-ahead that is used is the table's value, for every token", not own, c.loc((own[0] if own else fb)["sp"]),
                "`%s` hands out the table's look-ahead but answers with a literal of its own on some path: whatever the table says for those "
                "tokens (a comment that ends with the text grows when text is appended) is overridden" % fb["d"], ("T2", "lexer"))
    # T3: every static token occurs exactly once, with the right macro; class order
    for v, s in sorted(static.items()):
        if v == "Eof":
            continue
        occ = pos.get(v, [])
        want = "lex_keyword" if v in t["is_keyword"] else "lex_symbol" if v in t["is_symbol"] else None
        ok = len(occ) == 1 and (want is None or occ[0][1] == want)
        out.add("<Token as Lexer>::lex", "T3 %s lexed once via %s" % (v, want), ok,
                c.loc(occ[0][2]["sp"]) if occ else loc_lex,
                "token `%s` (%r) must occur exactly once in alt(..), %s = with/without the whole-word look-ahead; found %s"
                % (v, s, want, [(k) for _, k, _ in occ]), ("T3", "lexer"))

    def first(name):
        return pos[name][0][0] if name in pos else None

    def idx_of_kind(kind):
        return [i for i, (k, _, _) in enumerate(order) if k == kind]

    sym_idx, kw_idx = idx_of_kind("lex_symbol"), idx_of_kind("lex_keyword")
    checks = [
        ("Comment before symbols", first("Comment") is not None and sym_idx and first("Comment") < min(sym_idx),
         "`//` must be recognised before `/`"),
        ("keywords before Ident", first("Ident") is not None and kw_idx and max(kw_idx) < first("Ident"),
         "keywords must win over identifiers"),
        ("Hex before Int", first("Hex") is not None and first("Int") is not None and first("Hex") < first("Int"),
         "`0x..` must be tried before a decimal literal"),
        ("Unknown last", first("Unknown") is not None and first("Unknown") == len(order) - 1,
         "the catch-all must be the last alternative"),
        ("Char present", first("Char") is not None, "character literals must be lexed"),
    ]
    for what, ok, why in checks:
        out.add("<Token as Lexer>::lex", "T3 order: " + what, bool(ok), loc_lex, why, ("T3", "lexer"))

    # T4: operators are printed as the lexeme they were lexed from
    OP = next((p_ for p_ in sorted(prog.adts) if p_.startswith("spl_frontend::ast::") and p_.endswith("::Operator")), "spl_frontend::ast::Operator")
    tf = find_fn(prog, "try_from", "ast::Operator")
    disp = find_fn(prog, "fmt", "ast::Operator", "core::fmt::Display")
    arith = _single_table(out, prog, "is_arithmetic", "ast::Operator", OP)
    if len(tf) != 1 or len(disp) != 1 or arith is None:
        out.missing("Operator::try_from / Display for Operator / Operator::is_arithmetic")
        return out
    tft = match_tables(prog, tf[0], TT)
    dt = match_tables(prog, disp[0], OP)
    if not dt:
        # Display writes what a method of the operator hands it (`fn symbol(&self) -> &'static str`): that method holds the table
        for ob in c.bodies:
            if ob["k"] == "assoc_fn" and "impl_self" in ob and hir.adt_path(c, ob["impl_self"]) == OP and ob is not disp[0] and \
                    "str" in c.tstr(ob.get("sig_out", 0) or 0) and any(
                        (hir.callee(x_) or "") == ob["p"] for x_ in hir.nodes(disp[0]["body"]) if x_.get("k") in ("Call", "MethodCall")):
                dt = match_tables(prog, ob, OP)
    if len(tft) != 1 or len(dt) != 1:
        out.missing("match tables of Operator::try_from / Display for Operator")
        return out
    tok2op = {k: v[1] for k, v in tft[0][1].items() if isinstance(v, tuple)}
    op2str = dt[0][1]
    for tok, op in sorted(tok2op.items()):
        ok = op2str.get(op) is not None and op2str.get(op) == static.get(tok)
        out.add("Display for Operator", "T4 %s -> %s prints %r" % (tok, op, static.get(tok)), ok,
                c.loc(disp[0]["sp"]),
                "token %s (%r) becomes Operator::%s which is printed as %r" % (tok, static.get(tok), op, op2str.get(op)),
                ("T4", "fmt"))
    ops = variants_of(prog, OP)
    for op in ops:
        ok = op in tok2op.values()
        out.add("Operator::try_from", "T4 Operator::%s has a token" % op, ok, c.loc(tf[0]["sp"]),
                "every operator must be reachable from a token", ("T4", "fmt"))
    arith_set = set(k for k, v in arith[1][1].items() if v is True)

    # T5: parser precedence levels vs is_arithmetic
    tags = tag_parsers(prog)
    levels = {}
    for b in prog.front.bodies:
        if b["name"] in ("parse_comparison", "parse_add", "parse_mul") and b["p"].startswith("spl_frontend::parser") and b["k"] == "fn":
            toks = set()
            # the operator alternatives of the level: in the function, or in an operator parser it names (handed to a shared
            # level helper as a function value)
            roots = [b["body"]]
            for pth in hir.nodes(b["body"], "Path"):
                r_ = pth["res"]
                rp_ = (r_.get("rp") or r_.get("p") or "") if r_.get("k") == "Def" else ""
                ob = prog.body(rp_) if rp_.startswith("spl_frontend::parser") and r_.get("dk") in ("Fn", "AssocFn") else None
                if ob is not None and not ob["name"].startswith("parse_") and ob is not b and rp_ not in tags:
                    roots.append(ob["body"])
            for root in roots:
                for n in hir.nodes(root, "Call"):
                    if (hir.callee(n) or "").endswith("nom::branch::alt"):
                        for el in hir.strip(n["args"][0]).get("es", []):
                            d = hir.path_def(el)
                            if d and d["p"] in tags:
                                toks.add(tags[d["p"]])
            levels[b["name"]] = (toks, b)
    if set(levels) != {"parse_comparison", "parse_add", "parse_mul"}:
        # by role: the functions of the parser that yield an Expression and choose between operator tokens
        levels = {}
        fc_ = prog.front
        for b in fc_.bodies:
            f_ = fc_.file_of(b["sp"])
            if b["k"] != "fn" or not (f_.endswith("src/parser.rs") or "/parser/" in f_) or "/tests" in f_ or "sig_out" not in b or \
                    "Expression" not in fc_.tstr(b["sig_out"]):
                continue
            toks = set()
            for n in hir.nodes(b["body"], "Call"):
                if (hir.callee(n) or "").endswith("nom::branch::alt"):
                    for el in hir.strip(n["args"][0]).get("es", []):
                        d = hir.path_def(el)
                        if d and d["p"] in tags:
                            toks.add(tags[d["p"]])
            role = "parse_mul" if "Times" in toks else "parse_add" if "Plus" in toks else "parse_comparison" if "Eq" in toks else None
            if role is not None and role not in levels:
                levels[role] = (toks, b)
    if set(levels) != {"parse_comparison", "parse_add", "parse_mul"}:
        out.missing("parse_comparison/parse_add/parse_mul")
        return out
    for lvl, (toks, b) in sorted(levels.items()):
        for tok in sorted(toks):
            op = tok2op.get(tok)
            want_arith = lvl != "parse_comparison"
            ok = op is not None and ((op in arith_set) == want_arith)
            out.add("Expression::parse::" + lvl, "T5 %s is %s" % (tok, "arithmetic" if want_arith else "a comparison"),
                    ok, c.loc(b["sp"]),
                    "operator token %s parsed at level %s maps to Operator::%s; the type checker treats it as %s"
                    % (tok, lvl, op, "arithmetic" if op in arith_set else "comparison"), ("T5", "parser"))
    parsed = set().union(*[v[0] for v in levels.values()])
    for tok in sorted(tok2op):
        out.add("Expression::parse", "T5 operator token %s is parsed at some level" % tok, tok in parsed,
                c.loc(levels["parse_comparison"][1]["sp"]), "", ("T5", "parser"))
    # frozen from the SPL grammar: which operators live on which level (4 + 6 tokens)
    spec = {"parse_add": {"Plus", "Minus"}, "parse_mul": {"Times", "Divide"},
            "parse_comparison": {"Eq", "Neq", "Lt", "Le", "Gt", "Ge"}}
    for lvl, want in sorted(spec.items()):
        out.add("Expression::parse::" + lvl, "T5 level token set = %s" % sorted(want), levels[lvl][0] == want,
                c.loc(levels[lvl][1]["sp"]), "found %s" % sorted(levels[lvl][0]), ("T5", "parser"))
    return out


_tag_cache = {}


def tag_parsers(prog):
    """Single-token parsers (the `tag_parser!` family, found by role): fn(TokenStream) -> IResult<Token> in the parser
    module that tests the token type against exactly one TokenType variant (inline `matches!` or a predicate closure
    handed to a shared helper).  fn path -> TokenType variant it accepts."""
    if id(prog) in _tag_cache:
        return _tag_cache[id(prog)]
    res = {}
    c = prog.front
    for b in c.bodies:
        f = c.file_of(b["sp"])
        if b["k"] != "fn" or "sig_in" not in b or "/tests" in f or not b["p"].startswith("spl_frontend::parser"):
            continue
        ins = [c.tstr(t) for t in b["sig_in"]]
        out = c.tstr(b["sig_out"])
        if len(ins) != 1 or "TokenStream" not in ins[0] or "tokens::Token" not in out.replace("tokens::TokenStream", "") or "ast::" in out:
            continue
        vs = set()
        for n in hir.nodes(b["body"]):
            pats = [a["pat"] for a in n["arms"]] if n.get("k") == "Match" else [n["pat"]] if n.get("k") == "LetExpr" else []
            for pt in pats:
                for alt in hir.pat_alternatives(pt):
                    v = hir.pat_variant(alt)
                    if v and v.startswith(TT + "::"):
                        vs.add(last(v))
        if len(vs) == 1:
            res[b["p"]] = vs.pop()
    _tag_cache.clear()
    _tag_cache[id(prog)] = res
    return res


def rule_semtok_tables(prog):
    """T6: semantic token legend order == enum discriminants."""
    out = Out("TABLES-SEMTOK")
    c = prog.lsp
    tt = prog.body("lsp4spl::features::semantic_tokens::TOKEN_TYPES")
    tm = prog.body("lsp4spl::features::semantic_tokens::TOKEN_MODIFIERS")
    et = prog.adts.get("lsp4spl::features::semantic_tokens::SemanticTokenType")
    em = prog.adts.get("lsp4spl::features::semantic_tokens::SemanticTokenModifier")
    if not (tt and tm and et and em):
        out.missing("semantic_tokens::{TOKEN_TYPES,TOKEN_MODIFIERS,SemanticTokenType,SemanticTokenModifier}")
        return out

    def names(body):
        arr = hir.strip(body["body"])
        res = []
        for el in arr.get("es", []):
            d = hir.path_def(el)
            res.append(last(d["p"]) if d else None)
        return res

    legend = names(tt)
    for v in et["variants"]:
        d = int(v["discr"])
        ok = d < len(legend) and legend[d] is not None and legend[d].lower() == v["name"].lower()
        out.add("semantic_tokens::SemanticTokenType", "T6 %s = index %d of TOKEN_TYPES" % (v["name"], d), ok,
                c.loc(et["sp"]), "legend[%d] = %s" % (d, legend[d] if d < len(legend) else None), ("T6",))
    out.add("semantic_tokens::TOKEN_TYPES", "T6 legend length", len(legend) == len(et["variants"]), c.loc(tt["sp"]),
            "%d legend entries, %d enum variants" % (len(legend), len(et["variants"])), ("T6",))
    mods = names(tm)
    for v in em["variants"]:
        d = int(v["discr"])
        if v["name"] == "None":
            out.add("semantic_tokens::SemanticTokenModifier", "T6 None = 0", d == 0, c.loc(em["sp"]), "", ("T6",))
            continue
        bit = d.bit_length() - 1
        ok = d > 0 and d == (1 << bit) and bit < len(mods) and mods[bit] is not None and mods[bit].lower() == v["name"].lower()
        out.add("semantic_tokens::SemanticTokenModifier", "T6 %s = bit of TOKEN_MODIFIERS" % v["name"], ok,
                c.loc(em["sp"]), "discriminant %d, modifiers %s" % (d, mods), ("T6",))
    # the legend announced to the client is built from exactly these two constants
    used = {}
    loc = ""
    for b in c.bodies:
        for st in hir.nodes(b["body"], "Struct"):
            if (st.get("adt") or "").endswith("SemanticTokensLegend"):
                loc = c.loc(st["sp"])
                for f in st["fields"]:
                    for n in hir.nodes(f["e"], "Path"):
                        r = n["res"]
                        if r.get("k") == "Def" and r["p"].startswith("lsp4spl::features::semantic_tokens::TOKEN_"):
                            used[f["name"]] = last(r["p"])
    # ... and reaches the client unchanged: the handler emits fixed indices into these arrays, so nothing between the constants and the
    # `initialize` answer may prune, reorder or extend the two lists (e.g. filtering them by the client's capabilities)
    LIST_EDITS = ("retain", "retain_mut", "dedup", "dedup_by", "dedup_by_key", "truncate", "drain", "pop", "remove", "swap_remove", "clear",
                  "sort", "sort_by", "sort_by_key", "sort_unstable", "sort_unstable_by", "sort_unstable_by_key", "reverse", "split_off",
                  "rotate_left", "rotate_right", "swap", "insert", "push", "extend", "filter", "skip", "take", "rev", "step_by")
    edited = None
    n_lists = 0
    for b in c.bodies:
        if "/tests" in c.file_of(b["sp"]) or "_serde" in b["d"]:
            continue
        for mc in hir.nodes(b["body"], "MethodCall"):
            r_ = hir.strip(mc["recv"])
            t_ = c.tstr(r_["t"]) + "".join(c.tstr(a_["to"]) for a_ in r_.get("adj") or [])
            if "SemanticTokenType>" in t_.replace(" ", "") or "SemanticTokenModifier>" in t_.replace(" ", "") or \
                    "lsp_types::SemanticTokenType]" in t_ or "lsp_types::SemanticTokenModifier]" in t_:
                n_lists += 1
                if mc["m"] in LIST_EDITS:
                    edited = (b, mc)
    out.add("semantic token legend", "T6 the legend reaches the client as the two constants list it (never pruned or reordered)", edited is None,
            c.loc(edited[1]["sp"]) if edited else loc,
            "`.%s(..)` on the announced token types / modifiers in `%s`: the handler encodes token classes as fixed indices into "
            "TOKEN_TYPES / TOKEN_MODIFIERS, a client that was sent a shorter or reordered legend decodes every index behind the change "
            "as another class" % (edited[1]["m"] if edited else "", edited[0]["d"] if edited else ""), ("T6", "legend"))
    # the lexical classes: comments, numbers (Int, Hex, Char) and every keyword are mapped, by the token-kind mapper, to the class
    # the property names (table frozen from the property text; predicates such as is_keyword() are evaluated from their match tables)
    mapper = None
    for b in c.bodies:
        if not b["p"].startswith("lsp4spl::features::semantic_tokens") or "sig_in" not in b or "/tests" in c.file_of(b["sp"]):
            continue
        ins = [c.tstr(t_) for t_ in b["sig_in"]]
        # (the class may be decided by a function of its own that answers with the class, not with the finished token:
        # `SemanticTokenType::of_plain_token(&TokenType) -> Option<Self>`)
        if ins and "tokens::Token" in ins[0] and "SemanticToken" in c.tstr(b["sig_out"]).replace(" ", "") and "Option<" in c.tstr(b["sig_out"]):
            if any(m_.get("k") == "Match" and any(v.startswith(TT + "::") for a_ in m_["arms"] for v in hir.pat_variants_all(a_["pat"]))
                   for m_ in hir.nodes(b["body"])):
                mapper = b
    if mapper is None:
        out.missing("token-kind -> semantic class mapper (fn(&Token, ..) -> Option<SemanticToken> matching on TokenType)")
    else:
        kw = token_tables(prog, Out("x"))
        assigned = {}
        for m_ in hir.nodes(mapper["body"], "Match"):
            for arm in m_["arms"]:
                vs = [last(v) for v in hir.pat_variants_all(arm["pat"]) if v.startswith(TT + "::")]
                roots_ = [arm["guard"]] if (not vs and arm.get("guard") is not None) else []
                if not vs and arm.get("guard") is None and hir.pat_strip(arm["pat"]).get("k") in ("Binding", "Wild"):
                    # `other => other.is_keyword().then_some(Keyword)`: the rest is classified by a predicate in the arm itself
                    roots_ = [arm["body"]]
                for root_ in roots_:
                    for g in hir.nodes(root_, "MethodCall"):
                        tb = _single_table(Out("x"), prog, g["m"], "tokens::TokenType", TT)
                        if tb is not None:
                            _, (_, table, default, _) = tb
                            vs += [k_ for k_, v_ in table.items() if v_ is True]
                cls = None
                for pth in hir.nodes(arm["body"], "Path"):
                    cp = pth["res"].get("ctor_of", "") or pth["res"].get("p", "")
                    if "SemanticTokenType::" in cp:
                        cls = last(cp)
                for v in vs:
                    assigned.setdefault(v, cls)
        want = {"Comment": "Comment", "Int": "Number", "Hex": "Number", "Char": "Number"}
        for k_ in (kw["is_keyword"] if kw else []):
            want[k_] = "Keyword"
        for v, cls in sorted(want.items()):
            got = assigned.get(v)
            verdict = got == cls
            if not verdict:
                # not one flat match: the mapper is evaluated for this token kind (early returns, predicates, helpers)
                r_ = eval_for_variant(prog, mapper, TT, v, result_enum="SemanticTokenType")
                if isinstance(r_, tuple) and r_[0] == "variant" and "SemanticTokenType::" in r_[1]:
                    got = last(r_[1])
                    verdict = got == cls
                elif r_ == ("variant", "core::option::Option::None"):
                    got, verdict = None, False
                else:
                    verdict = None if got is None else False
            out.add("semantic_tokens::map_token", "T6 token kind %s carries the lexical class %s" % (v, cls), verdict,
                    c.loc(mapper["sp"]), "%s is mapped to %s: tokens of this kind get no (or a wrong) semantic token" % (v, got), ("T6", "lexclass"))
    out.add("SemanticTokensLegend", "T6 legend published from TOKEN_TYPES/TOKEN_MODIFIERS",
            used == {"token_types": "TOKEN_TYPES", "token_modifiers": "TOKEN_MODIFIERS"}, loc, "found %s" % used, ("T6",))
    return out


def rule_error_codes(prog):
    """T7: JSON-RPC / LSP error code numbers."""
    out = Out("TABLES-ERRCODE")
    e = prog.adts.get("lsp4spl::error::ErrorCode")
    if not e:
        out.missing("lsp4spl::error::ErrorCode")
        return out
    spec = {"ServerNotInitialized": -32002, "InvalidRequest": -32600, "MethodNotFound": -32601}
    have = {v["name"]: int(v["discr"]) for v in e["variants"]}
    for k, want in sorted(spec.items()):
        out.add("error::ErrorCode", "T7 %s = %d" % (k, want), have.get(k) == want, prog.lsp.loc(e["sp"]),
                "is %s" % have.get(k), ("T7",))
    # the other codes of JSON-RPC 2.0 / LSP 3.17, where the server defines them
    optional = {"ParseError": -32700, "InvalidParams": -32602, "InternalError": -32603, "UnknownErrorCode": -32001,
                "RequestFailed": -32803, "ServerCancelled": -32802, "ContentModified": -32801, "RequestCancelled": -32800}
    for k, want in sorted(optional.items()):
        if k in have:
            out.add("error::ErrorCode", "T7 %s = %d" % (k, want), have[k] == want, prog.lsp.loc(e["sp"]), "is %s" % have[k], ("T7",))
    return out


def rule_variants(prog):
    """VARIANTS: every build/semantic message kind has an emitting site under table::* and a
    distinct text."""
    out = Out("VARIANTS")
    c = prog.front
    for enum in ("BuildErrorMessage", "SemanticErrorMessage"):
        adt = "spl_frontend::error::" + enum
        vs = variants_of(prog, adt)
        if not vs:
            out.missing(adt)
            continue
        built = {}
        for b in c.bodies:
            if not c.file_of(b["sp"]).startswith("spl_frontend/src/table"):
                continue
            for n in hir.nodes(b["body"], "Path"):
                r = n["res"]
                co = r.get("ctor_of", "")
                if co.startswith(adt + "::"):
                    built.setdefault(last(co), []).append(c.loc(n["sp"]))
        for v in vs:
            out.add("error::" + enum, "%s is emitted under table::*" % v, v in built,
                    built.get(v, [c.loc(prog.adts[adt]["sp"])])[0],
                    "no construction site of %s::%s in spl_frontend/src/table*: the rule it stands for is never reported" % (enum, v),
                    ("emit",))
        disp = find_fn(prog, "fmt", "error::" + enum, "core::fmt::Display")
        if len(disp) != 1:
            out.missing("Display for " + enum)
            continue
        texts = {}
        # the text table: the match over the variants in Display::fmt, or - when fmt only writes what a method of the enum hands it
        # (`fn text(&self) -> String`) - in that method
        text_bodies = [disp[0]]
        if not any(m["src"] == "match" and any((hir.pat_variant(alt) or "").startswith(adt + "::") for arm in m["arms"]
                                                for alt in hir.pat_alternatives(arm["pat"])) for m in hir.nodes(disp[0]["body"], "Match")):
            for ob in c.bodies:
                if ob["k"] == "assoc_fn" and "impl_self" in ob and hir.adt_path(c, ob["impl_self"]) == adt and ob is not disp[0] and \
                        not any("derive" in str(x_) for x_ in (ob.get("mx") or [])) and "String" in c.tstr(ob.get("sig_out", 0) or 0):
                    text_bodies.append(ob)
        for m in [m_ for tb_ in text_bodies for m_ in hir.nodes(tb_["body"], "Match")]:
            if m["src"] != "match":
                continue
            for arm in m["arms"]:
                for alt in hir.pat_alternatives(arm["pat"]):
                    pv = hir.pat_variant(alt)
                    if pv and pv.startswith(adt + "::"):
                        lits = tuple(n["lit"].get("v") for n in hir.nodes(arm["body"], "Lit")
                                     if n["lit"]["k"] in ("str", "bytes"))
                        if lits or last(pv) not in texts:
                            texts[last(pv)] = lits
        for v in vs:
            mine = texts.get(v)
            dup = [o for o, t in texts.items() if o != v and t == mine]
            ok = mine is not None and len(mine) > 0 and not dup
            out.add("Display for " + enum, "%s has its own message text" % v, ok, c.loc(disp[0]["sp"]),
                    "text pieces %s; same as %s" % (mine, dup), ("text",))
    return out
