"""Property -> rules table. Floors are the numbers of definite verdicts measured on the pinned tree
(after hand-checking every instance); a run that decides fewer fails closed."""
from .registry import prop, tag

NEC = ("Decides necessary structural conditions of the property on the type-checked program (typed HIR of "
       "every function of spl_frontend and lsp4spl, callees resolved through type information); it does not "
       "decide the behaviour as a whole. ")

prop("C01", NEC + "Clauses: symbol table and semantic analysis are rebuilt from the final AST after the last "
     "lexer/parser step (REBUILD); reused nodes are stripped of exactly the message classes that table::* "
     "produces (STRIP-SET); parser context saved in locals is restored on every exit (SAVE-RESTORE); equality "
     "used for token reuse compares every field (EQ-COMPLETE).",
     [{"rule": "REBUILD", "floor": 14}, {"rule": "STRIP-SET", "floor": 4}, {"rule": "SAVE-RESTORE", "floor": 4},
      {"rule": "EQ-COMPLETE", "floor": 43}])

prop("C02", NEC + "Clauses: token-range to text-range conversions unwrap first()/last() only in the arm "
     "complementary to `range.is_empty()`; the process is terminated only at the three sanctioned places.",
     [{"rule": "EMPTY-RANGE-GUARD", "floor": 2}, {"rule": "WHO-MAY", "filter": tag("exit"), "floor": 5}])

prop("C03", NEC + "Clauses: each of the 27 build/semantic message kinds has an emitting site under table::* and "
     "its own text (VARIANTS); type equality used by the checker compares every field incl. the array creator "
     "(EQ-COMPLETE: SPL name equivalence).",
     [{"rule": "VARIANTS", "floor": 54}, {"rule": "EQ-COMPLETE", "floor": 43}])

prop("C04", NEC + "Clauses: shape of the precedence-climbing parser (levels, loops, operand parsers, else binding) "
     "and agreement of parser levels with the operator classification used by the type checker (T5); raw token "
     "consumption only inside the comment-skipping token parsers.",
     [{"rule": "PARSE-SHAPE", "floor": 18}, {"rule": "TABLES", "filter": tag("T5"), "floor": 23},
      {"rule": "NOCONSUME", "filter": tag("take"), "floor": 37}])

prop("C05", NEC + "Clauses: the five synchronisation sets are nested and all contain proc/type/eof, each error "
     "variant recovers with its own set (SYNC-SETS); failed token parsers and expect() hand back the original "
     "input; declaration keywords are consumed only at declaration level (NOCONSUME).",
     [{"rule": "SYNC-SETS", "floor": 10}, {"rule": "NOCONSUME", "filter": tag("tag", "expect", "kw"), "floor": 40}])

prop("C06", NEC + "Clauses: alt(..) order vs. prefix relation of static lexemes (longest match), every static token "
     "lexed exactly once through the macro of its class, class order, exactly one Eof.",
     [{"rule": "TABLES", "filter": tag("T1", "T3"), "floor": 37}, {"rule": "EOF-ONCE", "floor": 3}])

prop("C07", NEC + "Clauses: a token relocated to a new range relocates its lexical errors too (TOKEN-ERRORS); the "
     "look-ahead table covers every lexeme that a following character can extend (T2).",
     [{"rule": "TOKEN-ERRORS", "floor": 2}, {"rule": "TABLES", "filter": tag("T2"), "floor": 17}])

prop("C08", NEC + "Clauses: no content change is discarded, batched changes are converted against the advanced "
     "temporary text and applied to it, LSP columns advance by UTF-16 code units.",
     [{"rule": "TEXT-SYNC", "floor": 6}])

prop("C09", NEC + "Clause: operators are re-printed as the lexeme they were lexed from (T4).",
     [{"rule": "TABLES", "filter": tag("T4"), "floor": 20}])

prop("C15", NEC + "Clause: the semantic token legend published by main.rs has the order of the enum discriminants "
     "used as indices (T6).",
     [{"rule": "TABLES-SEMTOK", "floor": 11}])

prop("C18", NEC + "Clauses: every path through every Request arm of the three phase loops splits the request, "
     "turns the PreparedResponse into exactly one Response and sends it; phase x situation -> error code table; "
     "exit handling per phase; senders released before the tasks are joined; end of input falls through to Ok(()); "
     "responses can only be built from the request's PreparedResponse; JSON-RPC error code numbers.",
     [{"rule": "LIFECYCLE", "floor": 57}, {"rule": "WHO-MAY", "floor": 13}, {"rule": "TABLES-ERRCODE", "floor": 3}])

prop("C19", NEC + "Clauses: decode consumes nothing before its last `Ok(None)`, slices the body only behind the "
     "length guard and advances by exactly content_end; encode writes String::len() (bytes) of the body it writes.",
     [{"rule": "CODEC", "floor": 7}])

prop("C20", NEC + "Clauses: diagnostics only under `if send_diagnostics`, once per Open/Change; Close removes; "
     "document map keyed by an injective function of the URI; no task spawned per request.",
     [{"rule": "BROKER", "floor": 12}, {"rule": "WHO-MAY", "filter": tag("spawn"), "floor": 1}])
