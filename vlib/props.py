"""Property -> rules table. Floors are derived from the numbers of definite verdicts measured on the
current tree after every instance had been triaged by hand; small anchored rules use the exact count, the
two program-wide analyses (FRAME, TRAVERSE) 90 % of it so that a harmless local refactoring does not trip
them. A run that decides fewer instances than the floor fails closed (`coverage-lost`)."""
from .registry import prop, tag

NEC = ("Static analysis of the type-checked program (typed HIR of every function of spl_frontend and lsp4spl, "
       "callees resolved through type information, exported by the splint rustc driver from the current tree). "
       "It decides necessary structural conditions of the property, not the behaviour as a whole. ")

FRONT_FRAME = ("error_container.rs", "build.rs", "semantic.rs", "lib.rs", "error.rs", "ast.rs", "table.rs", "parser.rs")
PARSER_REF = " Positions sent to the client are converted by as_position, whose column counts UTF-16 code units (TEXT-SYNC utf16). Every position a feature reports is built from Reference offsets: a Reference rebuilt by the parser carries the sum of the offsets it unwraps (FRAME S-ref in parser.rs / parser/utility.rs)."


HANDLER_MODULES = ("goto", "references", "hover", "signature_help", "semantic_tokens", "completion", "fold", "formatting")


def feat(*mods):
    """Instances that sit in the named handler modules, or in no handler module at all (shared infrastructure: doc_cursor,
    as_pos_range, the tables).  An instance inside another feature's handler belongs to that feature's property."""
    def f(i):
        if "anchor" in i.tags:
            return True
        here = [m for m in HANDLER_MODULES if ("features::%s::" % m) in i.key or ("features/%s.rs" % m) in i.key]
        if not here:
            # shared helpers with a known set of users: the resolution context of doc_cursor is read by go-to, hover and references only
            # (completion and signature help use its text and offset), get_local_table by semantic tokens and completion
            for frag, users in SHARED_USERS.items():
                if frag in i.key:
                    return any(m in mods for m in users)
        return not here or any(m in mods for m in here)
    return f


SHARED_USERS = {
    "SCOPE-ORDER:features::doc_cursor:": ("goto", "hover", "references"),
    "CURSOR-CMP:features::DocumentCursor::ident:": ("goto", "hover", "references"),
    "features::get_local_table:": ("semantic_tokens", "completion"),
}


def shared_only():
    """Instances that sit in no handler module (doc_cursor, DocumentCursor, the helpers every position request goes through)."""
    def f(i):
        return "features::" in i.key and not any(("features::%s::" % m) in i.key or ("features/%s.rs" % m) in i.key for m in HANDLER_MODULES)
    return f


def nottag(*tags):
    s = set(tags)
    return lambda i: not (s & set(i.tags))


def both(f, g):
    return lambda i: f(i) and g(i)


# modules that have sub-directories on the triaged tree: for these a file name means that file only; any other module named in a
# claim keeps its instances when it is turned into a directory of files (features/formatting.rs -> features/formatting/fmt.rs)
_DIR_MODULES = ("features", "parser", "table", "lexer", "src")


def files(*names):
    s = set(names)
    stems = tuple("/" + n[:-3] + "/" for n in names if n.endswith(".rs") and n[:-3] not in _DIR_MODULES)

    def f(i):
        if s & set(i.tags) or "anchor" in i.tags:
            return True
        return any(t.startswith("path:") and any(st in t for st in stems) for t in i.tags)
    return f


prop("C01", NEC + "Clauses: positions handed to TokenChange queries are absolute old positions (TOKCHANGE-ARGS); symbol "
     "table and semantic analysis are rebuilt from the final AST after the last lexer/parser step (REBUILD); reused "
     "nodes are stripped of exactly the message classes table::* produces, on the clone that is handed out "
     "(STRIP-SET) and traverse_mut reaches every AstInfo (TRAVERSE); parser context saved in locals is restored "
     "on every exit (SAVE-RESTORE); equality used for token reuse compares every field (EQ-COMPLETE); relocated "
     "tokens relocate their errors (TOKEN-ERRORS); the look-ahead table covers every extendable lexeme (T2); per change the "
     "text is edited, tokens updated against the new text and stored before the AST update (UPDATE-ORDER); the change window "
     "is computed from head/new/tail lengths (RELEX-WINDOW); the re-analysis, which appends diagnostics, is only reached "
     "after parser::update stripped the previous ones: no path skips it in the per-change step and an empty change list "
     "is turned away (STRIP-REBUILD); the TextChanges handed to update are computed against the text they will be applied to "
     "(TEXT-SYNC batch clauses); batch and incremental lexer skip the same separators; an old node is reused only where it starts "
     "in the new token stream, a parser that gives up as Affected hands back the input it was entered with, and the stack of old "
     "Reference offsets is popped exactly when it was pushed (REUSE); an error pushed by expect() is collected by an info() of its own "
     "reuse unit, or the unit refuses reuse of nodes that reported outward (ERROR-OWNER).",
     [{"rule": "TOKCHANGE-ARGS", "floor": 4}, {"rule": "REBUILD", "floor": 14}, {"rule": "STRIP-SET", "floor": 4},
      {"rule": "SAVE-RESTORE", "floor": 4}, {"rule": "EQ-COMPLETE", "floor": 43},
      {"rule": "TRAVERSE", "filter": tag("traverse", "binops"), "floor": 110},
      {"rule": "TOKEN-ERRORS", "floor": 2}, {"rule": "TABLES", "filter": tag("T2"), "floor": 18},
      {"rule": "UPDATE-ORDER", "floor": 3}, {"rule": "RELEX-WINDOW", "floor": 8}, {"rule": "STRIP-REBUILD", "floor": 2},
      {"rule": "COMMENT-LEX", "floor": 5}, {"rule": "TEXT-SYNC", "filter": tag("batch"), "floor": 4}, {"rule": "REUSE", "floor": 18},
      # "every published diagnostic": each change of a supporting client's document is followed by its diagnostics
      {"rule": "BROKER", "filter": tag("diag"), "floor": 8},
      {"rule": "ERROR-OWNER", "floor": 20}])

prop("C02", NEC + "Clauses: token-range to text-range conversions unwrap first()/last() only in the arm complementary "
     "to `range.is_empty()`; token byte ranges are taken from the consumed input, so they lie on character boundaries "
     "(TOKEN-RANGE-SOURCE); results of request-driven table lookups are never unwrapped and no handler panics on the "
     "kind of a looked-up entry (LOOKUP-NOPANIC); locations are produced only for user declarations (ENTRY-GUARD: "
     "predefined entries have the empty range); the process is terminated only at the three sanctioned places; "
     "ranges handed to String::replace_range are computed against the very text they are applied to (TEXT-SYNC batch clauses: a stale "
     "range is out of bounds or off a character boundary, and replace_range panics); the nesting depth of the tree, which every "
     "recursive walk of the front end and of the handlers needs stack for, is bounded where the tree is built (RECURSION-BOUND; open known findings); "
     "the frame decoder slices the body only behind the guard on the very bound it slices with and takes no unguarded unsigned difference (CODEC: "
     "a panic in the reader task ends the process); the span a content change replaces comes from `range` through the conversion functions, never from "
     "`rangeLength` (POS-CONV rangelen).",
     [{"rule": "EMPTY-RANGE-GUARD", "filter": nottag("diagstart", "diagtokens"), "floor": 2}, {"rule": "LOOKUP-NOPANIC", "floor": 14},
      {"rule": "ENTRY-GUARD", "filter": nottag("typeentry"), "floor": 6}, {"rule": "WHO-MAY", "filter": tag("exit"), "floor": 1},
      {"rule": "TOKEN-RANGE-SOURCE", "floor": 11}, {"rule": "INDEX-ELEM", "floor": 30},
      {"rule": "BUILTIN-SET", "floor": 3}, {"rule": "TEXT-SYNC", "filter": tag("batch", "clamp"), "floor": 6},
      {"rule": "RECURSION-BOUND", "floor": 4}, {"rule": "CODEC", "floor": 8}, {"rule": "BROKER", "filter": tag("answer"), "floor": 1},
      {"rule": "ERR-FRAME", "filter": tag("entry"), "floor": 3},
      # a handler that takes the first token of a node's slice for the node's own token *and* panics on another kind of token
      {"rule": "SLICE-FIRST", "filter": tag("panics"), "floor": 0},
      # "for every edit history the server process stays alive": a change that is not accepted at once is waited for, not turned into an error
      {"rule": "SEND-AWAIT", "filter": nottag("order"), "floor": 8},
      # diagnostics are computed for every document state: their ranges index the token vector
      {"rule": "ERR-FRAME", "filter": tag("foreign"), "floor": 1},
      # a replaced span that is not computed by the conversion functions (rangeLength: UTF-16 units taken for bytes) is off a character
      # boundary as soon as the text is not ASCII: replace_range panics
      {"rule": "POS-CONV", "filter": tag("rangelen"), "floor": 1}])

prop("C03", NEC + "Clauses: each of the 27 build/semantic message kinds has an emitting site under table::* and its own "
     "text (VARIANTS); every error is attached in the reference frame of the node that owns it and is shifted exactly "
     "once per Reference crossed on the way up (FRAME S6/S3/S4/S-shift in error_container.rs, build.rs, semantic.rs, "
     "lib.rs); every ErrorContainer impl descends into every child that can hold an AstInfo (TRAVERSE); type equality "
     "used by the checker compares every field incl. the array creator (EQ-COMPLETE: SPL name equivalence); type expressions of type "
     "declarations and parameters are resolved in the global scope, those of local variables in the procedure scope (SCOPE-ORDER typescope); "
     "names used in a procedure body are resolved through the scoped LookupTable, never directly against the global table; a match "
     "whose fall-through arm reports `not a <kind>` takes every value of that kind in the arms above (NOT-A-KIND: no cascaded diagnostic); "
     "the error of an expect() is collected by an info(..) inside the Reference it was counted in (ERR-FRAME escape; one open known finding: the "
     "missing operand of a binary operator).",
     [{"rule": "VARIANTS", "floor": 54}, {"rule": "MESSAGE-SITE", "floor": 32},
      {"rule": "FRAME", "filter": files(*FRONT_FRAME), "floor": 212},
      {"rule": "TRAVERSE", "filter": tag("errors", "analyze", "build"), "floor": 73}, {"rule": "EQ-COMPLETE", "floor": 43},
      # every document a server holds was reached by edits: "no diagnostic for a rule it does not violate" needs the old build/semantic
      # messages of reused nodes to be stripped everywhere (traverse_mut reaches every AstInfo) before they are computed again
      {"rule": "TRAVERSE", "filter": tag("traverse"), "floor": 60}, {"rule": "STRIP-SET", "floor": 4},
      {"rule": "SCOPE-ORDER", "filter": tag("typescope", "semantic"), "floor": 5}, {"rule": "NOT-A-KIND", "floor": 3},
      {"rule": "KEYWORD-BOUNDARY", "filter": nottag("charvalue"), "floor": 3}, {"rule": "EMPTY-RANGE-GUARD", "filter": tag("diagstart"), "floor": 1},
      {"rule": "ERR-FRAME", "filter": tag("frame"), "floor": 4},
      {"rule": "NOCONSUME", "filter": tag("tag"), "floor": 34},
      # "a valid program gets no diagnostics at all": the parser accepts the whole grammar
      {"rule": "PARSE-SHAPE", "floor": 18},
      # missing-token faults: the diagnostic "lies on the offending construct" only if its position is read in the frame it was counted in
      {"rule": "ERR-FRAME", "filter": tag("escape"), "floor": 1},
      # "every range ever published lies inside the document": the positions of a diagnostic come from as_position alone
      {"rule": "POS-CONV", "filter": lambda i: "document::" in i.key, "floor": 2}])

prop("C04", NEC + "Clauses: shape of the precedence-climbing parser (levels, loops, operand parsers, else binding) "
     "and agreement of parser levels with the operator classification used by the type checker (T5); raw token "
     "consumption only inside the comment-skipping token parsers; doc comments are consumed inside the node's info(..) range "
     "(DOC-IN-RANGE); a rebuilt Reference carries the sum of the offsets it unwraps (FRAME S-ref in parser.rs / parser/utility.rs); "
     "a range used as the prefix another node is extended with does not itself cover a repetition (INFO-EXTENT: nested array accesses); "
     "the recovery sets contain every token that starts a statement, so recovery never eats the beginning of a valid construct (SYNC-SETS).",
     [{"rule": "PARSE-SHAPE", "floor": 18}, {"rule": "TABLES", "filter": tag("T5"), "floor": 23},
      {"rule": "NOCONSUME", "filter": tag("take"), "floor": 4}, {"rule": "DOC-IN-RANGE", "floor": 5},
      {"rule": "FRAME", "filter": files("parser.rs", "utility.rs"), "floor": 3}, {"rule": "INFO-EXTENT", "floor": 1},
      {"rule": "SYNC-SETS", "floor": 14},
      {"rule": "ERR-FRAME", "filter": tag("frame"), "floor": 4},
      # a valid program gets no syntax diagnostic only if the parser is handed the program's tokens: a keyword is a whole word
      {"rule": "KEYWORD-BOUNDARY", "filter": nottag("charvalue"), "floor": 3},
      # "independent of whitespace and comments": a comment is one comment token, whatever line ending closes it
      {"rule": "COMMENT-LEX", "floor": 5},
      # every character may stand between two ticks (a tick between two ticks is a valid literal)
      {"rule": "LEX-MUNCH", "filter": tag("anychar"), "floor": 1}])

prop("C05", NEC + "Clauses: the five synchronisation sets are nested and all contain proc/type/eof, each error "
     "variant recovers with its own set (SYNC-SETS); failed token parsers and expect() hand back the original "
     "input, and so do the five recovery parsers when they find nothing to ignore; declaration keywords are consumed only at declaration level (NOCONSUME); the text range of a published diagnostic is taken from the tokens its token range names (EMPTY-RANGE-GUARD diagtokens).",
     [{"rule": "SYNC-SETS", "floor": 14}, {"rule": "NOCONSUME", "filter": tag("tag", "expect", "kw", "recover"), "floor": 45},
      {"rule": "ERR-FRAME", "filter": tag("frame"), "floor": 4},
      # the damage arrives as an edit: "keeps its symbol-table entry" then needs the table to be rebuilt from the tree of the final text
      {"rule": "STRIP-REBUILD", "floor": 2}, {"rule": "REBUILD", "filter": nottag("textid"), "floor": 1},
      # "every syntax diagnostic lies within the damaged declaration": the published text range comes from the tokens the error names
      {"rule": "EMPTY-RANGE-GUARD", "filter": tag("diagtokens"), "floor": 1},
      # "remains navigable": the search for the declaration around the cursor does not end at a damaged declaration
      {"rule": "DECL-SEARCH", "floor": 1},
      # "keeps its symbol-table entry": the entry of a declaration behind the damage still covers that declaration
      {"rule": "ERR-FRAME", "filter": tag("entry"), "floor": 3}])

prop("C06", NEC + "Clauses: alt(..) order vs. prefix relation of static lexemes (longest match), every static token "
     "lexed exactly once through the macro of its class, class order, exactly one Eof; token ranges are the ranges of the "
     "consumed input (TOKEN-RANGE-SOURCE); the keyword boundary test uses the identifier continuation class (KEYWORD-BOUNDARY); "
     "the comment lexer's text class stops exactly at a line feed and cannot fail, its closer accepts the line feed and the end of "
     "the text (COMMENT-LEX); the Span the tokens take their ranges from is built over the text as handed in, and batch and "
     "incremental lexer skip the same separator class (RELEX-WINDOW lexinput); lexeme bodies are matched by unbounded repetitions and "
     "token payloads are input text, not assembled strings (LEX-MUNCH).",
     [{"rule": "TABLES", "filter": tag("T1", "T3"), "floor": 37}, {"rule": "EOF-ONCE", "floor": 3},
      {"rule": "TOKEN-RANGE-SOURCE", "floor": 11}, {"rule": "KEYWORD-BOUNDARY", "floor": 4}, {"rule": "COMMENT-LEX", "floor": 5},
      {"rule": "RELEX-WINDOW", "filter": tag("lexinput", "overlap"), "floor": 3}, {"rule": "LEX-MUNCH", "floor": 15}])

prop("C07", NEC + "Clauses: a token relocated to a new range relocates its lexical errors too (TOKEN-ERRORS); the "
     "look-ahead table covers every lexeme that a following character can extend (T2); byte, char and UTF-16 lengths "
     "are not mixed in the shift arithmetic (LEN-UNITS); re-lexed tokens are shifted by the offset the text was cut at and the "
     "change window is computed from head/new/tail lengths, result = head ++ new ++ tail ++ eof (RELEX-WINDOW); a comment that "
     "can end with the text is re-lexed when text is appended behind it (COMMENT-LEX); the look-ahead table knows how far a token kind "
     "looks, which presupposes that no sub-lexer decides by peeking further: the character of a character literal is read context-free "
     "(LEX-MUNCH anychar).",
     [{"rule": "TOKEN-ERRORS", "floor": 2}, {"rule": "TABLES", "filter": tag("T2"), "floor": 18},
      {"rule": "LEN-UNITS", "filter": tag("arith"), "floor": 1}, {"rule": "RELEX-WINDOW", "floor": 8}, {"rule": "COMMENT-LEX", "floor": 5},
      {"rule": "LEX-MUNCH", "filter": tag("anychar"), "floor": 1}])

prop("C08", NEC + "Clauses: no content change is discarded, batched changes are converted against the advanced "
     "temporary text and applied to it, LSP columns advance by UTF-16 code units; lengths of different units are not mixed; "
     "client positions are interpreted only by get_insertion_index and positions sent out come only from as_position (POS-CONV); "
     "the scan for a client position has an exit that depends on the line alone (a column behind the end of a line is clamped to it); "
     "no byte distance is computed from terminator-stripped lines; the changes of a notification are applied in the order they were "
     "converted in and none is skipped by a shortcut exit (UPDATE-ORDER); the span of a change comes from `range`, never from rangeLength (POS-CONV rangelen); "
     "the text kept (and lexed) at didOpen is the text handed in (REBUILD textid).",
     [{"rule": "TEXT-SYNC", "floor": 15}, {"rule": "LEN-UNITS", "floor": 3}, {"rule": "POS-CONV", "floor": 22},
      {"rule": "UPDATE-ORDER", "floor": 3},
      # "any range the server reports for a token addresses that token": semantic tokens report ranges relative to the previous token
      {"rule": "SEMTOK-PAIRING", "filter": nottag("declframe"), "floor": 9},
      # the server's copy starts as the text of didOpen: AnalyzedSource::new keeps the text it is handed
      {"rule": "REBUILD", "filter": tag("textid"), "floor": 1},
      # "any range the server reports for a token, sent back as a request position, addresses that same token": the shared look-up of
      # the token under the cursor treats the end of a token as exclusive
      {"rule": "CURSOR-CMP", "filter": shared_only(), "floor": 0},
      # the copy of *that* document: the broker keeps one entry per URI
      {"rule": "BROKER", "filter": tag("key"), "floor": 4}])

prop("C09", NEC + "Clauses: operators are re-printed as the lexeme they were lexed from (T4); every Format impl prints "
     "every child that holds an identifier, literal or operator and every Error variant (TRAVERSE); every token slice "
     "handed down is re-based exactly when a Reference is crossed (FRAME in formatting.rs); the edit covers the whole "
     "document (FMT-PURE); character literals are printed only with escapes the lexer knows (CHAR-ESCAPES); the first token of a "
     "node's slice is never taken for the node's own token, the slice may start with comments (SLICE-FIRST); literals are printed from "
     "kind and payload, so the lexer stores input text as payload, never an assembled string (LEX-MUNCH payload).",
     [{"rule": "TABLES", "filter": tag("T4"), "floor": 20}, {"rule": "TRAVERSE", "filter": tag("format"), "floor": 43},
      {"rule": "FRAME", "filter": files("formatting.rs"), "floor": 63}, {"rule": "FMT-PURE", "floor": 5},
      {"rule": "CHAR-ESCAPES", "floor": 2}, {"rule": "SLICE-FIRST", "floor": 20},
      {"rule": "LEX-MUNCH", "filter": tag("payload"), "floor": 6},
      {"rule": "TEXT-SYNC", "filter": tag("utf16"), "floor": 1}])

prop("C10", NEC + "Clause: a composite node whose parser skips comments in front of several own tokens must re-attach all "
     "comments of its slice (COMMENT-PAIRING). Six composite Format impls violate it on the pinned tree (known findings). A comment must first of all be a comment token: "
     "COMMENT-LEX; handlers do not mistake the comment in front of a node for the node's first token (SLICE-FIRST).",
     [{"rule": "COMMENT-PAIRING", "floor": 21}, {"rule": "DOC-IN-RANGE", "floor": 5}, {"rule": "SLICE-FIRST", "floor": 20},
      {"rule": "COMMENT-LEX", "floor": 5},
      {"rule": "LEN-UNITS", "filter": tag("arith"), "floor": 1}, {"rule": "TABLES", "filter": tag("T2"), "floor": 18},
      # "exactly once" is about the document after the edit is applied: the edit covers the whole old text
      {"rule": "FMT-PURE", "filter": tag("wholedoc", "rewrite"), "floor": 2}])

prop("C11", NEC + "Clauses: the printer does not read byte positions (output is a function of tree and token kinds), the "
     "indentation unit follows insertSpaces/tabSize and is put in front of lines, not of items (FMT-PURE unit), null is returned exactly on equality; character literals are printed only with "
     "escapes the lexer reads back (CHAR-ESCAPES: otherwise the formatted text re-lexes differently and a second run changes it again); the "
     "all-comments helper is applied only to text whose parts print no comments themselves (COMMENT-PAIRING nested: otherwise every run adds "
     "another copy of the inner comments in front of the node).",
     [{"rule": "FMT-PURE", "floor": 5}, {"rule": "CHAR-ESCAPES", "floor": 2}, {"rule": "COMMENT-PAIRING", "filter": tag("nested", "order"), "floor": 4}])

prop("C12", NEC + "Clauses: an entry's name range is resolved against the token slice cut with that same entry's range "
     "(FRAME S7 in goto.rs / features.rs); inside a procedure the identifier is resolved local-then-global through a "
     "LookupTable built from that procedure (SCOPE-ORDER); locations only for user declarations (ENTRY-GUARD) and "
     "is_default() never holds for locals (ENTRY-KIND); lookups are never unwrapped (LOOKUP-NOPANIC); locations sent out are converted "
     "by as_pos_range only (POS-CONV)." + PARSER_REF,
     [{"rule": "FRAME", "filter": files("goto.rs", "features.rs", "table.rs"), "floor": 16},
      {"rule": "SCOPE-ORDER", "filter": both(feat("goto"), nottag("typescope", "semantic")), "floor": 24}, {"rule": "ENTRY-GUARD", "floor": 6}, {"rule": "ENTRY-KIND", "floor": 4},
      {"rule": "LOOKUP-NOPANIC", "filter": feat("goto"), "floor": 8}, {"rule": "BUILTIN-SET", "floor": 3}, {"rule": "POS-CONV", "filter": feat("goto"), "floor": 6},
       {"rule": "IDENT-RANGE", "filter": both(tag("identexact"), feat("goto")), "floor": 1},
      {"rule": "CURSOR-CMP", "filter": feat("goto"), "floor": 0}, {"rule": "POSITION-TOKEN", "filter": tag("prev"), "floor": 0}, {"rule": "INDEX-DOMAIN", "floor": 6},
      {"rule": "FRAME", "filter": files("parser.rs", "utility.rs"), "floor": 3},
      {"rule": "TEXT-SYNC", "filter": tag("utf16"), "floor": 1},
      {"rule": "ERR-FRAME", "filter": tag("entry"), "floor": 3}])

prop("C13", NEC + "Clauses: the finder walkers descend into every statement/expression/type shape that can contain what "
     "they collect (TRAVERSE); every identifier found is shifted once per Reference crossed (FRAME in references.rs); "
     "find and rename use the same finder with the same arguments (SAME-FINDER); binding resolution is local-then-global "
     "(SCOPE-ORDER); every range sent out is converted by as_pos_range (UTF-16 columns) only (POS-CONV)." + PARSER_REF,
     [{"rule": "TRAVERSE", "filter": tag("vars", "calls", "types"), "floor": 51},
      {"rule": "FRAME", "filter": files("references.rs"), "floor": 56}, {"rule": "SAME-FINDER", "floor": 3},
      {"rule": "SCOPE-ORDER", "filter": both(feat("references"), nottag("typescope", "semantic")), "floor": 10}, {"rule": "IDENT-RANGE", "filter": feat("references"), "floor": 3}, {"rule": "POS-CONV", "filter": feat("references"), "floor": 4},
       {"rule": "BSEARCH-MONO", "floor": 1},
      {"rule": "CURSOR-CMP", "filter": feat("references"), "floor": 0}, {"rule": "POSITION-TOKEN", "filter": tag("prev"), "floor": 0}, {"rule": "INDEX-DOMAIN", "floor": 6},
      {"rule": "FRAME", "filter": files("parser.rs", "utility.rs"), "floor": 3},
      {"rule": "TEXT-SYNC", "filter": tag("utf16"), "floor": 1}])

prop("C14", NEC + "Clauses: the call statement is located with node, origin and token slice in one frame on every step of "
     "the descent (FRAME in signature_help.rs) through every statement shape that can contain a call (TRAVERSE); hover "
     "resolves local-then-global (SCOPE-ORDER); signatures read kind, name, ref marker and type (DISPLAY-FIELDS); the hover range "
     "is the cursor identifier's token range (IDENT-RANGE), converted by as_pos_range (POS-CONV); a token counts as lying before the "
     "cursor iff it starts before it: comparisons of token bounds with the cursor offset use one of the four forms that say so "
     "(CURSOR-CMP: the commas counted for the active parameter); an entry's documentation is the concatenation of all doc-comment "
     "lines of its declaration (DOC-FLOW); the answer does not depend on the request context and the code that counts the commas in "
     "front of the cursor reacts to commas only (REQ-PURE)." + PARSER_REF,
     [{"rule": "FRAME", "filter": files("signature_help.rs"), "floor": 8},
      {"rule": "TRAVERSE", "filter": tag("calls"), "floor": 18}, {"rule": "SCOPE-ORDER", "filter": both(feat("hover", "signature_help"), nottag("typescope", "semantic")), "floor": 10},
      {"rule": "DISPLAY-FIELDS", "floor": 6}, {"rule": "IDENT-RANGE", "filter": feat("hover", "signature_help"), "floor": 4}, {"rule": "POS-CONV", "filter": feat("hover", "signature_help"), "floor": 4},
      {"rule": "CURSOR-CMP", "filter": feat("hover", "signature_help"), "floor": 1}, {"rule": "POSITION-TOKEN", "filter": tag("prev"), "floor": 0}, {"rule": "REQ-PURE", "floor": 2}, {"rule": "INDEX-DOMAIN", "floor": 6}, {"rule": "DOC-FLOW", "floor": 1},
      {"rule": "POSITION-TOKEN", "filter": both(tag("nest"), feat("hover", "signature_help")), "floor": 0},
      {"rule": "FRAME", "filter": files("parser.rs", "utility.rs"), "floor": 3},
      {"rule": "TEXT-SYNC", "filter": tag("utf16"), "floor": 1}])

prop("C15", NEC + "Clauses: legend order = enum discriminants (T6); token positions of different units/frames are not "
     "compared and declaration slices are cut in the right frame (FRAME in semantic_tokens.rs); token lengths are UTF-16 "
     "(LEN-UNITS); the delta base advances exactly when a token is emitted, and it is the caller's running base that a collector "
     "advances, never a copy (SEMTOK-PAIRING); identifiers inside a procedure are "
     "classified through the local-then-global LookupTable (SCOPE-ORDER)." + PARSER_REF,
     [{"rule": "TABLES-SEMTOK", "floor": 24}, {"rule": "FRAME", "filter": files("semantic_tokens.rs"), "floor": 6},
      {"rule": "LEN-UNITS", "filter": tag("lsp"), "floor": 1}, {"rule": "SEMTOK-PAIRING", "floor": 9},
      {"rule": "SCOPE-ORDER", "filter": both(feat("semantic_tokens"), nottag("typescope", "semantic")), "floor": 9}, {"rule": "FRAME", "filter": files("parser.rs", "utility.rs"), "floor": 3},
      {"rule": "TEXT-SYNC", "filter": tag("utf16"), "floor": 1}])

prop("C16", NEC + "Clauses: every token slice / node pair that drives the position classification is in one frame (FRAME "
     "in completion.rs); variables are proposed from the LookupTable of the procedure that contains the cursor (SCOPE-ORDER); "
     "search_* keep exactly the entry kinds they are named after, from the right table (KIND-FILTER); proposal lists are concatenated, "
     "never merged by label or pruned (NO-MERGE: a variable and a procedure may share a name); the token that classifies the position and "
     "the statement the cursor is located in are determined without the comments in front of the cursor / statement (POSITION-TOKEN)." + PARSER_REF,
     [{"rule": "FRAME", "filter": files("completion.rs"), "floor": 18}, {"rule": "SCOPE-ORDER", "filter": both(feat("completion"), nottag("typescope", "semantic")), "floor": 5},
      {"rule": "KIND-FILTER", "floor": 7}, {"rule": "NO-MERGE", "floor": 24}, {"rule": "POSITION-TOKEN", "filter": feat("completion"), "floor": 3},
      {"rule": "CURSOR-CMP", "filter": feat("completion"), "floor": 1},
      {"rule": "FRAME", "filter": files("parser.rs", "utility.rs"), "floor": 3}])

prop("C17", NEC + "Clause: the procedure's token range is made absolute with the offset of the Reference it was reached "
     "through before the token vector is sliced (FRAME in fold.rs); the lines reported come from as_pos_range of the "
     "procedure's byte range (POS-CONV); exactly the Procedure declarations are kept, each mapped 1:1, nothing removed "
     "afterwards (ONE-PER-ITEM); the document the ranges are computed from is the client's: batched changes are converted and "
     "applied in the order sent (TEXT-SYNC batch, UPDATE-ORDER); a procedure extends to the next `proc`/`type` *token*, so `proc` is a keyword "
     "only as a whole word (KEYWORD-BOUNDARY); these tokens are the incrementally maintained ones: a token that a change can extend is "
     "lexed again (T2 look-ahead table and its use) and the re-lexed window is spliced at the right offsets (RELEX-WINDOW); the tree is the "
     "incrementally maintained one as well: old nodes are reused only aligned, untouched and free of syntax errors (REUSE)." + PARSER_REF,
     [{"rule": "FRAME", "filter": files("fold.rs"), "floor": 2}, {"rule": "POS-CONV", "filter": feat("fold"), "floor": 6},
      {"rule": "ONE-PER-ITEM", "floor": 3}, {"rule": "SLICE-FIRST", "floor": 20}, {"rule": "BSEARCH-MONO", "floor": 1},
      {"rule": "KEYWORD-BOUNDARY", "filter": nottag("charvalue"), "floor": 3}, {"rule": "TEXT-SYNC", "filter": tag("batch"), "floor": 4},
      {"rule": "UPDATE-ORDER", "floor": 3}, {"rule": "FRAME", "filter": files("parser.rs", "utility.rs"), "floor": 3},
      {"rule": "TEXT-SYNC", "filter": tag("utf16"), "floor": 1}, {"rule": "TABLES", "filter": tag("T2"), "floor": 18},
      {"rule": "RELEX-WINDOW", "floor": 8},
      # ... and the tree the procedure extents are read from is the incrementally maintained one: an old node is reused only where it is
      # aligned, untouched and free of syntax errors
      {"rule": "REUSE", "floor": 18},
      # the ranges of *that* document: the broker keeps one entry per URI
      {"rule": "BROKER", "filter": tag("key"), "floor": 4}])

prop("C18", NEC + "Clauses: every path through every Request arm of the three phase loops splits the request, "
     "turns the PreparedResponse into exactly one Response and sends it; phase x situation -> error code table; "
     "exit handling per phase; senders released before the tasks are joined; end of input falls through to Ok(()); "
     "responses can only be built from the request's PreparedResponse; JSON-RPC error code numbers; the broker answers a handler's "
     "document query on every path, so that `document not open` is an answer (null) and not an error that ends the reader loop (BROKER answer).",
     [{"rule": "LIFECYCLE", "floor": 76}, {"rule": "WHO-MAY", "floor": 9}, {"rule": "TABLES-ERRCODE", "floor": 4},
      {"rule": "BROKER", "filter": tag("answer"), "floor": 1},
      {"rule": "SEND-AWAIT", "floor": 11},
      {"rule": "CODEC", "floor": 8}])

prop("C19", NEC + "Clauses: decode consumes nothing before its last `Ok(None)`, slices the body only behind the "
     "length guard and advances by exactly content_end; encode writes String::len() (bytes) of the body it writes; one "
     "FramedRead (and thus one read buffer) serves the whole session; what is published for a change does not depend on what else is "
     "queued behind it (BROKER diag: publishing is guarded by the capability flag alone); the process is not terminated by process::exit "
     "on the graceful path, where responses may still be queued for the writer task (WHO-MAY exit).",
     [{"rule": "CODEC", "floor": 8}, {"rule": "WHO-MAY", "filter": tag("framed"), "floor": 1},
      {"rule": "BROKER", "filter": tag("diag"), "floor": 8}, {"rule": "WHO-MAY", "filter": tag("exit"), "floor": 1},
      # "the same responses however the bytes are split": requests are handled inline by the reader - a handler in a task of its own
      # races with the messages buffered behind its request
      {"rule": "WHO-MAY", "filter": tag("spawn"), "floor": 1},
      # ... and with arbitrary delays between them: no answer depends on how long the other task takes
      {"rule": "SEND-AWAIT", "filter": tag("wait"), "floor": 1}])

prop("C20", NEC + "Clauses: diagnostics only under `if send_diagnostics`, once per Open/Change; Close removes; "
     "document map keyed by an injective function of the URI; no task spawned per request; every channel send is "
     "`send(..).await` (no lossy try_send); the broker's flag is the client's publishDiagnostics capability (DIAG-FLAG).",
     [{"rule": "BROKER", "floor": 12}, {"rule": "WHO-MAY", "filter": tag("spawn"), "floor": 1},
      {"rule": "SEND-AWAIT", "floor": 11}, {"rule": "DIAG-FLAG", "floor": 2}])
