//! splint — exports the type-checked program of AlecGhost/LSP4SPL (typed HIR with resolved
//! callees, adjustments, patterns, ADT tables and impl tables) as JSON facts.
//!
//! It is injected as RUSTC_WORKSPACE_WRAPPER into the repository's own `cargo +nightly check`,
//! so it sees exactly the crates, cfgs and flags of the real build. It never runs any code of
//! the repository; everything downstream (`/verif/rules/*.py`) decides properties from these
//! facts only.
#![feature(rustc_private)]

extern crate rustc_abi;
extern crate rustc_ast;
extern crate rustc_driver;
extern crate rustc_hir;
extern crate rustc_interface;
extern crate rustc_middle;
extern crate rustc_span;

use rustc_driver::Compilation;
use rustc_hir as hir;
use rustc_hir::def::{DefKind, Res};
use rustc_hir::def_id::{DefId, LocalDefId, LOCAL_CRATE};
use rustc_middle::ty::adjustment::{Adjust, DerefAdjustKind};
use rustc_middle::ty::{self, Ty, TyCtxt, TypeckResults};
use rustc_span::Span;
use std::collections::HashMap;
use std::fmt::Write as _;

const CRATES: [&str; 3] = ["spl_frontend", "lsp4spl", "splint_fixture"];

fn esc(s: &str) -> String {
    let mut o = String::with_capacity(s.len() + 2);
    o.push('"');
    for c in s.chars() {
        match c {
            '"' => o.push_str("\\\""),
            '\\' => o.push_str("\\\\"),
            '\n' => o.push_str("\\n"),
            '\r' => o.push_str("\\r"),
            '\t' => o.push_str("\\t"),
            c if (c as u32) < 0x20 => {
                let _ = write!(o, "\\u{:04x}", c as u32);
            }
            c => o.push(c),
        }
    }
    o.push('"');
    o
}

/// tiny JSON object builder
struct Obj(String);
impl Obj {
    fn new(kind: &str) -> Self {
        let mut s = String::from("{\"k\":");
        s.push_str(&esc(kind));
        Obj(s)
    }
    fn raw(mut self, key: &str, val: &str) -> Self {
        self.0.push(',');
        self.0.push_str(&esc(key));
        self.0.push(':');
        self.0.push_str(val);
        self
    }
    fn s(self, key: &str, val: &str) -> Self {
        let v = esc(val);
        self.raw(key, &v)
    }
    fn n(self, key: &str, val: i128) -> Self {
        let v = val.to_string();
        self.raw(key, &v)
    }
    fn b(self, key: &str, val: bool) -> Self {
        self.raw(key, if val { "true" } else { "false" })
    }
    fn opt(self, key: &str, val: Option<String>) -> Self {
        match val {
            Some(v) => self.raw(key, &v),
            None => self.raw(key, "null"),
        }
    }
    fn arr(self, key: &str, vals: Vec<String>) -> Self {
        let v = format!("[{}]", vals.join(","));
        self.raw(key, &v)
    }
    fn end(mut self) -> String {
        self.0.push('}');
        self.0
    }
}

fn arr(vals: Vec<String>) -> String {
    format!("[{}]", vals.join(","))
}

struct Ex<'tcx> {
    tcx: TyCtxt<'tcx>,
    types: Vec<String>,
    type_ix: HashMap<Ty<'tcx>, usize>,
    files: Vec<String>,
    file_ix: HashMap<String, usize>,
}

impl<'tcx> Ex<'tcx> {
    fn qpath(&self, did: DefId) -> String {
        let krate = self.tcx.crate_name(did.krate);
        format!("{}{}", krate, self.tcx.def_path(did).to_string_no_crate_verbose())
    }

    fn dstr(&self, did: DefId) -> String {
        rustc_middle::ty::print::with_no_trimmed_paths!(self.tcx.def_path_str(did))
    }

    fn file(&mut self, name: String) -> usize {
        if let Some(i) = self.file_ix.get(&name) {
            return *i;
        }
        let i = self.files.len();
        self.files.push(name.clone());
        self.file_ix.insert(name, i);
        i
    }

    /// [file, line, col, end_line, end_col] of the outermost call site, plus macro backtrace
    fn span(&mut self, sp: Span) -> (String, Option<String>) {
        let sm = self.tcx.sess.source_map();
        let cs = sp.source_callsite();
        let lo = sm.lookup_char_pos(cs.lo());
        let hi = sm.lookup_char_pos(cs.hi());
        let fname = format!("{}", lo.file.name.prefer_local_unconditionally());
        let f = self.file(fname);
        let pos = format!("[{},{},{},{},{}]", f, lo.line, lo.col.0 + 1, hi.line, hi.col.0 + 1);
        let mx = if sp.from_expansion() {
            let names: Vec<String> = sp
                .macro_backtrace()
                .map(|d| esc(&format!("{}", d.kind.descr())))
                .collect();
            Some(arr(names))
        } else {
            None
        };
        (pos, mx)
    }

    fn ty(&mut self, t: Ty<'tcx>) -> usize {
        if let Some(i) = self.type_ix.get(&t) {
            return *i;
        }
        // reserve slot first (recursive types through args are fine: Ty is interned, finite)
        let s = rustc_middle::ty::print::with_no_trimmed_paths!(format!("{}", t));
        let body = match t.kind() {
            ty::Adt(def, args) => {
                let a: Vec<String> = args
                    .iter()
                    .filter_map(|ga| ga.as_type())
                    .map(|x| self.ty(x).to_string())
                    .collect();
                Obj::new("adt").s("p", &self.qpath(def.did())).arr("a", a)
            }
            ty::Ref(_, inner, m) => {
                let i = self.ty(*inner);
                Obj::new("ref").b("m", m.is_mut()).n("t", i as i128)
            }
            ty::RawPtr(inner, m) => {
                let i = self.ty(*inner);
                Obj::new("ptr").b("m", m.is_mut()).n("t", i as i128)
            }
            ty::Slice(inner) => {
                let i = self.ty(*inner);
                Obj::new("slice").n("t", i as i128)
            }
            ty::Array(inner, _) => {
                let i = self.ty(*inner);
                Obj::new("array").n("t", i as i128)
            }
            ty::Tuple(ts) => {
                let a: Vec<String> = ts.iter().map(|x| self.ty(x).to_string()).collect();
                Obj::new("tuple").arr("a", a)
            }
            ty::Bool | ty::Char | ty::Int(_) | ty::Uint(_) | ty::Float(_) | ty::Str | ty::Never => {
                Obj::new("prim")
            }
            ty::FnDef(did, args) => {
                let a: Vec<String> = args
                    .iter()
                    .filter_map(|ga| ga.as_type())
                    .map(|x| self.ty(x).to_string())
                    .collect();
                Obj::new("fndef").s("p", &self.qpath(*did)).arr("a", a)
            }
            ty::Closure(did, _) => Obj::new("closure").s("p", &self.qpath(*did)),
            ty::Coroutine(did, _) => Obj::new("coroutine").s("p", &self.qpath(*did)),
            ty::CoroutineClosure(did, _) => Obj::new("closure").s("p", &self.qpath(*did)),
            ty::Param(p) => Obj::new("param").s("n", p.name.as_str()),
            ty::FnPtr(..) => Obj::new("fnptr"),
            ty::Dynamic(..) => Obj::new("dyn"),
            ty::Alias(..) => Obj::new("alias"),
            _ => Obj::new("other"),
        };
        let json = body.s("s", &s).end();
        let i = self.types.len();
        self.types.push(json);
        self.type_ix.insert(t, i);
        i
    }
}

struct BodyEx<'a, 'tcx> {
    ex: &'a mut Ex<'tcx>,
    tr: &'tcx TypeckResults<'tcx>,
    owner: LocalDefId,
}

impl<'a, 'tcx> BodyEx<'a, 'tcx> {
    fn tcx(&self) -> TyCtxt<'tcx> {
        self.ex.tcx
    }

    fn res(&mut self, res: Res, hir_id: hir::HirId) -> String {
        match res {
            Res::Local(id) => Obj::new("Local")
                .s("id", &format!("{}", id.local_id.as_u32()))
                .s("name", self.tcx().hir_name(id).as_str())
                .end(),
            Res::Def(kind, did) => {
                let mut o = Obj::new("Def")
                    .s("dk", &format!("{:?}", kind))
                    .s("p", &self.ex.qpath(did))
                    .s("d", &self.ex.dstr(did));
                if matches!(kind, DefKind::Fn | DefKind::AssocFn | DefKind::AssocConst { .. }) {
                    if let Some(args) = self.tr.node_args_opt(hir_id) {
                        let a: Vec<String> = args
                            .iter()
                            .filter_map(|ga| ga.as_type())
                            .map(|x| self.ex.ty(x).to_string())
                            .collect();
                        o = o.arr("targs", a);
                        if matches!(kind, DefKind::Fn | DefKind::AssocFn) {
                            if let Some(rp) = self.resolve(did, args) {
                                o = o.s("rp", &rp);
                            }
                        }
                    }
                }
                if let DefKind::Ctor(..) = kind {
                    // parent of a ctor is the variant (or struct)
                    let parent = self.tcx().parent(did);
                    o = o.s("ctor_of", &self.ex.qpath(parent));
                }
                o.end()
            }
            Res::SelfCtor(did) => Obj::new("SelfCtor").s("p", &self.ex.qpath(did)).end(),
            Res::SelfTyAlias { alias_to, .. } => {
                Obj::new("SelfTy").s("p", &self.ex.qpath(alias_to)).end()
            }
            other => Obj::new("OtherRes").s("d", &format!("{:?}", other)).end(),
        }
    }

    fn resolve(&self, did: DefId, args: ty::GenericArgsRef<'tcx>) -> Option<String> {
        let tcx = self.tcx();
        // only trait methods are interesting
        if tcx.trait_of_assoc(did).is_none() {
            return None;
        }
        let env = ty::TypingEnv::post_analysis(tcx, self.owner.to_def_id());
        // generic params left: try anyway, failures are just None
        let args = tcx.erase_and_anonymize_regions(args);
        match ty::Instance::try_resolve(tcx, env, did, args) {
            Ok(Some(inst)) => {
                let rd = inst.def_id();
                if rd != did {
                    Some(self.ex.qpath(rd))
                } else {
                    None
                }
            }
            _ => None,
        }
    }

    fn adjustments(&mut self, e: &hir::Expr<'tcx>) -> Option<String> {
        let adjs = self.tr.expr_adjustments(e);
        if adjs.is_empty() {
            return None;
        }
        let mut src = self.tr.expr_ty(e);
        let mut out = Vec::new();
        for a in adjs {
            let kind = match &a.kind {
                Adjust::NeverToAny => "NeverToAny",
                Adjust::Deref(DerefAdjustKind::Builtin) => "Deref",
                Adjust::Deref(DerefAdjustKind::Overloaded(_)) => "DerefOverloaded",
                Adjust::Deref(DerefAdjustKind::Pin) => "DerefPin",
                Adjust::Borrow(_) => "Borrow",
                Adjust::Pointer(_) => "Pointer",
            };
            let s = self.ex.ty(src);
            let t = self.ex.ty(a.target);
            out.push(Obj::new(kind).n("from", s as i128).n("to", t as i128).end());
            src = a.target;
        }
        Some(arr(out))
    }

    fn lit(&self, l: &hir::Lit) -> String {
        use rustc_ast::LitKind;
        match &l.node {
            LitKind::Str(s, _) => Obj::new("str").s("v", s.as_str()).end(),
            LitKind::Int(v, _) => Obj::new("int").s("v", &format!("{}", v.get())).end(),
            LitKind::Char(c) => Obj::new("char").s("v", &c.to_string()).end(),
            LitKind::Bool(b) => Obj::new("bool").b("v", *b).end(),
            LitKind::Byte(b) => Obj::new("int").s("v", &format!("{}", b)).end(),
            LitKind::ByteStr(bytes, _) => {
                let hex: String = bytes.as_byte_str().iter().map(|b| format!("{:02x}", b)).collect();
                Obj::new("bytes").s("v", &hex).end()
            }
            other => Obj::new("otherlit").s("v", &format!("{:?}", other)).end(),
        }
    }

    fn block(&mut self, b: &hir::Block<'tcx>) -> String {
        let stmts: Vec<String> = b.stmts.iter().map(|s| self.stmt(s)).collect();
        let tail = b.expr.map(|e| self.expr(e));
        let (pos, _) = self.ex.span(b.span);
        Obj::new("Block").raw("sp", &pos).arr("stmts", stmts).opt("expr", tail).end()
    }

    fn stmt(&mut self, s: &hir::Stmt<'tcx>) -> String {
        match s.kind {
            hir::StmtKind::Let(l) => {
                let pat = self.pat(l.pat);
                let init = l.init.map(|e| self.expr(e));
                let els = l.els.map(|b| self.block(b));
                let (pos, _) = self.ex.span(s.span);
                Obj::new("Let").raw("sp", &pos).raw("pat", &pat).opt("init", init).opt("els", els).end()
            }
            hir::StmtKind::Item(_) => Obj::new("Item").end(),
            hir::StmtKind::Expr(e) => {
                let x = self.expr(e);
                Obj::new("Expr").raw("e", &x).end()
            }
            hir::StmtKind::Semi(e) => {
                let x = self.expr(e);
                Obj::new("Semi").raw("e", &x).end()
            }
        }
    }

    fn pat(&mut self, p: &hir::Pat<'tcx>) -> String {
        let t = self.tr.pat_ty(p);
        let ti = self.ex.ty(t);
        let (pos, _) = self.ex.span(p.span);
        let o = match p.kind {
            hir::PatKind::Wild | hir::PatKind::Missing => Obj::new("Wild"),
            hir::PatKind::Binding(mode, hid, ident, sub) => {
                let bt = self.tr.node_type(hid);
                let bti = self.ex.ty(bt);
                let subp = sub.map(|s| self.pat(s));
                Obj::new("Binding")
                    .s("name", ident.as_str())
                    .s("id", &format!("{}", hid.local_id.as_u32()))
                    .s("mode", &format!("{:?}", mode))
                    .n("bt", bti as i128)
                    .opt("sub", subp)
            }
            hir::PatKind::Struct(ref qp, fields, rest) => {
                let res = self.tr.qpath_res(qp, p.hir_id);
                let r = self.res(res, p.hir_id);
                let fs: Vec<String> = fields
                    .iter()
                    .map(|f| {
                        let sub = self.pat(f.pat);
                        Obj::new("f").s("name", f.ident.as_str()).raw("pat", &sub).end()
                    })
                    .collect();
                Obj::new("Struct").raw("res", &r).arr("fields", fs).b("rest", rest.is_some())
            }
            hir::PatKind::TupleStruct(ref qp, pats, ddpos) => {
                let res = self.tr.qpath_res(qp, p.hir_id);
                let r = self.res(res, p.hir_id);
                let ps: Vec<String> = pats.iter().map(|x| self.pat(x)).collect();
                Obj::new("TupleStruct")
                    .raw("res", &r)
                    .arr("pats", ps)
                    .opt("ddpos", ddpos.as_opt_usize().map(|u| u.to_string()))
            }
            hir::PatKind::Or(pats) => {
                let ps: Vec<String> = pats.iter().map(|x| self.pat(x)).collect();
                Obj::new("Or").arr("pats", ps)
            }
            hir::PatKind::Tuple(pats, ddpos) => {
                let ps: Vec<String> = pats.iter().map(|x| self.pat(x)).collect();
                Obj::new("Tuple").arr("pats", ps).opt("ddpos", ddpos.as_opt_usize().map(|u| u.to_string()))
            }
            hir::PatKind::Box(inner) | hir::PatKind::Deref(inner) => {
                let i = self.pat(inner);
                Obj::new("Box").raw("pat", &i)
            }
            hir::PatKind::Ref(inner, _, _) => {
                let i = self.pat(inner);
                Obj::new("Ref").raw("pat", &i)
            }
            hir::PatKind::Expr(pe) => match pe.kind {
                hir::PatExprKind::Lit { lit, negated } => {
                    let l = self.lit(&lit);
                    Obj::new("Lit").raw("lit", &l).b("neg", negated)
                }
                hir::PatExprKind::Path(ref qp) => {
                    let res = self.tr.qpath_res(qp, pe.hir_id);
                    let r = self.res(res, pe.hir_id);
                    Obj::new("Path").raw("res", &r)
                }
            },
            hir::PatKind::Guard(inner, cond) => {
                let i = self.pat(inner);
                let c = self.expr(cond);
                Obj::new("Guard").raw("pat", &i).raw("cond", &c)
            }
            hir::PatKind::Range(lo, hi, end) => {
                // bounds of a range pattern (`'a'..='z'`, `'A'..'Z'`): literal bounds only
                let bound = |pe: Option<&hir::PatExpr<'tcx>>| -> Option<String> {
                    pe.and_then(|pe| match pe.kind {
                        hir::PatExprKind::Lit { lit, .. } => Some(self.lit(&lit)),
                        _ => None,
                    })
                };
                let l = bound(lo);
                let h = bound(hi);
                Obj::new("Range").opt("lo", l).opt("hi", h).b("incl", matches!(end, hir::RangeEnd::Included))
            }
            hir::PatKind::Slice(before, mid, after) => {
                let b: Vec<String> = before.iter().map(|x| self.pat(x)).collect();
                let m = mid.map(|x| self.pat(x));
                let a: Vec<String> = after.iter().map(|x| self.pat(x)).collect();
                Obj::new("Slice").arr("before", b).opt("mid", m).arr("after", a)
            }
            hir::PatKind::Never => Obj::new("Never"),
            hir::PatKind::Err(_) => Obj::new("Err"),
        };
        o.n("t", ti as i128).raw("sp", &pos).end()
    }

    fn callee_info(&mut self, o: Obj, did: DefId, hir_id: hir::HirId) -> Obj {
        let mut o = o.s("p", &self.ex.qpath(did)).s("d", &self.ex.dstr(did));
        if let Some(args) = self.tr.node_args_opt(hir_id) {
            let a: Vec<String> = args
                .iter()
                .filter_map(|ga| ga.as_type())
                .map(|x| self.ex.ty(x).to_string())
                .collect();
            o = o.arr("targs", a);
            if let Some(rp) = self.resolve(did, args) {
                o = o.s("rp", &rp);
            }
        }
        o
    }

    fn expr(&mut self, e: &hir::Expr<'tcx>) -> String {
        let t = self.tr.expr_ty(e);
        let ti = self.ex.ty(t);
        let (pos, mx) = self.ex.span(e.span);
        let adj = self.adjustments(e);
        let o = match e.kind {
            hir::ExprKind::Call(f, args) => {
                let fx = self.expr(f);
                let a: Vec<String> = args.iter().map(|x| self.expr(x)).collect();
                Obj::new("Call").raw("f", &fx).arr("args", a)
            }
            hir::ExprKind::MethodCall(seg, recv, args, _) => {
                let r = self.expr(recv);
                let a: Vec<String> = args.iter().map(|x| self.expr(x)).collect();
                let mut o = Obj::new("MethodCall").s("m", seg.ident.as_str()).raw("recv", &r).arr("args", a);
                if let Some(did) = self.tr.type_dependent_def_id(e.hir_id) {
                    o = self.callee_info(o, did, e.hir_id);
                }
                o
            }
            hir::ExprKind::Tup(es) => {
                let a: Vec<String> = es.iter().map(|x| self.expr(x)).collect();
                Obj::new("Tup").arr("es", a)
            }
            hir::ExprKind::Array(es) => {
                let a: Vec<String> = es.iter().map(|x| self.expr(x)).collect();
                Obj::new("Array").arr("es", a)
            }
            hir::ExprKind::Binary(op, l, r) => {
                let lx = self.expr(l);
                let rx = self.expr(r);
                let mut o = Obj::new("Binary").s("op", op.node.as_str()).raw("l", &lx).raw("r", &rx);
                if let Some(did) = self.tr.type_dependent_def_id(e.hir_id) {
                    o = self.callee_info(o, did, e.hir_id);
                }
                o
            }
            hir::ExprKind::Unary(op, x) => {
                let xx = self.expr(x);
                let mut o = Obj::new("Unary").s("op", op.as_str()).raw("e", &xx);
                if let Some(did) = self.tr.type_dependent_def_id(e.hir_id) {
                    o = self.callee_info(o, did, e.hir_id);
                }
                o
            }
            hir::ExprKind::Lit(l) => {
                let lx = self.lit(&l);
                Obj::new("Lit").raw("lit", &lx)
            }
            hir::ExprKind::Cast(x, _) => {
                let xx = self.expr(x);
                Obj::new("Cast").raw("e", &xx)
            }
            hir::ExprKind::Type(x, _) | hir::ExprKind::DropTemps(x) | hir::ExprKind::Use(x, _) => {
                let xx = self.expr(x);
                Obj::new("Paren").raw("e", &xx)
            }
            hir::ExprKind::Let(l) => {
                let p = self.pat(l.pat);
                let i = self.expr(l.init);
                Obj::new("LetExpr").raw("pat", &p).raw("init", &i)
            }
            hir::ExprKind::If(c, th, el) => {
                let cx = self.expr(c);
                let tx = self.expr(th);
                let ex = el.map(|x| self.expr(x));
                Obj::new("If").raw("cond", &cx).raw("then", &tx).opt("else", ex)
            }
            hir::ExprKind::Loop(b, _, src, _) => {
                let bx = self.block(b);
                Obj::new("Loop").s("src", src.name()).raw("body", &bx)
            }
            hir::ExprKind::Match(scrut, arms, src) => {
                let sx = self.expr(scrut);
                let a: Vec<String> = arms
                    .iter()
                    .map(|arm| {
                        let p = self.pat(arm.pat);
                        let g = arm.guard.map(|g| self.expr(g));
                        let b = self.expr(arm.body);
                        let (apos, _) = self.ex.span(arm.span);
                        Obj::new("Arm").raw("sp", &apos).raw("pat", &p).opt("guard", g).raw("body", &b).end()
                    })
                    .collect();
                let srcs = match src {
                    hir::MatchSource::Normal => "match",
                    hir::MatchSource::Postfix => "postfix",
                    hir::MatchSource::ForLoopDesugar => "for",
                    hir::MatchSource::TryDesugar(_) => "try",
                    hir::MatchSource::AwaitDesugar => "await",
                    hir::MatchSource::FormatArgs => "format_args",
                };
                Obj::new("Match").s("src", srcs).raw("scrut", &sx).arr("arms", a)
            }
            hir::ExprKind::Closure(c) => {
                let body = self.tcx().hir_body(c.body);
                let params: Vec<String> = body.params.iter().map(|p| self.pat(p.pat)).collect();
                let bx = self.expr(body.value);
                Obj::new("Closure")
                    .s("ck", &format!("{:?}", c.kind))
                    .s("p", &self.ex.qpath(c.def_id.to_def_id()))
                    .arr("params", params)
                    .raw("body", &bx)
            }
            hir::ExprKind::Block(b, _) => {
                let bx = self.block(b);
                Obj::new("BlockExpr").raw("b", &bx)
            }
            hir::ExprKind::Assign(l, r, _) => {
                let lx = self.expr(l);
                let rx = self.expr(r);
                Obj::new("Assign").raw("l", &lx).raw("r", &rx)
            }
            hir::ExprKind::AssignOp(op, l, r) => {
                let lx = self.expr(l);
                let rx = self.expr(r);
                Obj::new("AssignOp").s("op", op.node.as_str()).raw("l", &lx).raw("r", &rx)
            }
            hir::ExprKind::Field(b, ident) => {
                let bx = self.expr(b);
                Obj::new("Field").s("name", ident.as_str()).raw("base", &bx)
            }
            hir::ExprKind::Index(b, i, _) => {
                let bx = self.expr(b);
                let ix = self.expr(i);
                let mut o = Obj::new("Index").raw("base", &bx).raw("idx", &ix);
                if let Some(did) = self.tr.type_dependent_def_id(e.hir_id) {
                    o = self.callee_info(o, did, e.hir_id);
                }
                o
            }
            hir::ExprKind::Path(ref qp) => {
                let res = self.tr.qpath_res(qp, e.hir_id);
                let r = self.res(res, e.hir_id);
                Obj::new("Path").raw("res", &r)
            }
            hir::ExprKind::AddrOf(_, m, x) => {
                let xx = self.expr(x);
                Obj::new("AddrOf").b("m", m.is_mut()).raw("e", &xx)
            }
            hir::ExprKind::Break(_, x) => {
                let xx = x.map(|x| self.expr(x));
                Obj::new("Break").opt("e", xx)
            }
            hir::ExprKind::Continue(_) => Obj::new("Continue"),
            hir::ExprKind::Ret(x) => {
                let xx = x.map(|x| self.expr(x));
                Obj::new("Ret").opt("e", xx)
            }
            hir::ExprKind::Struct(qp, fields, tail) => {
                let res = self.tr.qpath_res(qp, e.hir_id);
                let r = self.res(res, e.hir_id);
                let fs: Vec<String> = fields
                    .iter()
                    .map(|f| {
                        let x = self.expr(f.expr);
                        Obj::new("f").s("name", f.ident.as_str()).raw("e", &x).end()
                    })
                    .collect();
                let base = match tail {
                    hir::StructTailExpr::Base(b) => Some(self.expr(b)),
                    _ => None,
                };
                let mut o = Obj::new("Struct").raw("res", &r).arr("fields", fs).opt("base", base);
                if let ty::Adt(def, _) = t.kind() {
                    o = o.s("adt", &self.ex.qpath(def.did()));
                    if def.is_enum() {
                        let v = def.variant_of_res(res);
                        o = o.s("variant", v.name.as_str());
                    }
                }
                o
            }
            hir::ExprKind::Repeat(x, _) => {
                let xx = self.expr(x);
                Obj::new("Repeat").raw("e", &xx)
            }
            hir::ExprKind::Yield(x, _) => {
                let xx = self.expr(x);
                Obj::new("Yield").raw("e", &xx)
            }
            hir::ExprKind::ConstBlock(_) => Obj::new("ConstBlock"),
            hir::ExprKind::Become(_) => Obj::new("Become"),
            hir::ExprKind::InlineAsm(_) => Obj::new("InlineAsm"),
            hir::ExprKind::OffsetOf(..) => Obj::new("OffsetOf"),
            hir::ExprKind::UnsafeBinderCast(..) => Obj::new("UnsafeBinderCast"),
            hir::ExprKind::Err(_) => Obj::new("Err"),
        };
        let mut o = o.n("t", ti as i128).raw("sp", &pos);
        if let Some(m) = mx {
            o = o.raw("mx", &m);
        }
        if let Some(a) = adj {
            o = o.raw("adj", &a);
        }
        o.end()
    }
}

fn export<'tcx>(tcx: TyCtxt<'tcx>) -> String {
    let mut ex = Ex { tcx, types: Vec::new(), type_ix: HashMap::new(), files: Vec::new(), file_ix: HashMap::new() };
    let crate_name = tcx.crate_name(LOCAL_CRATE).to_string();

    // ---- ADTs
    let mut adts = Vec::new();
    for ldid in tcx.hir_crate_items(()).definitions() {
        let kind = tcx.def_kind(ldid);
        if !matches!(kind, DefKind::Struct | DefKind::Enum) {
            continue;
        }
        let def = tcx.adt_def(ldid.to_def_id());
        let mut variants = Vec::new();
        let discrs: Vec<String> = if def.is_enum() {
            def.discriminants(tcx).map(|(_, d)| format!("{}", d)).collect()
        } else {
            Vec::new()
        };
        for (vi, v) in def.variants().iter().enumerate() {
            let fields: Vec<String> = v
                .fields
                .iter()
                .map(|f| {
                    let fty = tcx.type_of(f.did).instantiate_identity().skip_norm_wip();
                    let ti = ex.ty(fty);
                    Obj::new("field").s("name", f.name.as_str()).n("t", ti as i128).end()
                })
                .collect();
            let mut o = Obj::new("variant")
                .s("name", v.name.as_str())
                .s("ctor", &format!("{:?}", v.ctor_kind()))
                .arr("fields", fields);
            if let Some(d) = discrs.get(vi) {
                o = o.s("discr", d);
            }
            variants.push(o.end());
        }
        let (pos, _) = ex.span(tcx.def_span(ldid.to_def_id()));
        adts.push(
            Obj::new(if def.is_enum() { "enum" } else { "struct" })
                .s("p", &ex.qpath(ldid.to_def_id()))
                .raw("sp", &pos)
                .arr("variants", variants)
                .end(),
        );
    }

    // ---- bodies
    let mut bodies = Vec::new();
    for owner in tcx.hir_body_owners() {
        let kind = tcx.def_kind(owner);
        let kinds = match kind {
            DefKind::Fn => "fn",
            DefKind::AssocFn => "assoc_fn",
            DefKind::Const { .. } => "const",
            DefKind::AssocConst { .. } => "assoc_const",
            DefKind::Static { .. } => "static",
            _ => continue, // closures are exported inline; anon consts skipped
        };
        let did = owner.to_def_id();
        let tr = tcx.typeck(owner);
        let body = tcx.hir_body_owned_by(owner);
        let (pos, mx) = ex.span(tcx.def_span(did));
        let mut o = Obj::new(kinds)
            .s("p", &ex.qpath(did))
            .s("d", &ex.dstr(did))
            .s("name", tcx.item_name(did).as_str())
            .raw("sp", &pos);
        if let Some(m) = mx {
            o = o.raw("mx", &m);
        }
        // enclosing impl
        if matches!(kind, DefKind::AssocFn | DefKind::AssocConst { .. }) {
            let parent = tcx.parent(did);
            if matches!(tcx.def_kind(parent), DefKind::Impl { .. }) {
                let self_ty = tcx.type_of(parent).instantiate_identity().skip_norm_wip();
                let sti = ex.ty(self_ty);
                o = o.n("impl_self", sti as i128);
                if let Some(tref) = tcx.impl_opt_trait_ref(parent) {
                    let tref = tref.instantiate_identity().skip_norm_wip();
                    o = o.s("impl_trait", &ex.qpath(tref.def_id));
                }
            } else if matches!(tcx.def_kind(parent), DefKind::Trait) {
                o = o.s("in_trait", &ex.qpath(parent));
            }
        }
        if matches!(kind, DefKind::Fn | DefKind::AssocFn) {
            let sig = tcx.fn_sig(did).instantiate_identity().skip_norm_wip().skip_binder();
            let ins: Vec<String> = sig.inputs().iter().map(|t| ex.ty(*t).to_string()).collect();
            let out = ex.ty(sig.output());
            o = o.arr("sig_in", ins).n("sig_out", out as i128);
            o = o.b("is_async", tcx.asyncness(did).is_async());
            // the where-clauses / bounds of the function (what a generic parameter is known to be)
            let preds: Vec<String> = tcx
                .predicates_of(did)
                .instantiate_identity(tcx)
                .predicates
                .iter()
                .map(|p| esc(&format!("{:?}", p.as_ref().skip_norm_wip())))
                .collect();
            o = o.arr("preds", preds);
        }
        let mut bx = BodyEx { ex: &mut ex, tr, owner };
        let params: Vec<String> = body.params.iter().map(|p| bx.pat(p.pat)).collect();
        let value = bx.expr(body.value);
        bodies.push(o.arr("params", params).raw("body", &value).end());
    }

    // ---- trait impls (local)
    let mut impls = Vec::new();
    for ldid in tcx.hir_crate_items(()).definitions() {
        if let DefKind::Impl { of_trait } = tcx.def_kind(ldid) {
            let did = ldid.to_def_id();
            let self_ty = tcx.type_of(did).instantiate_identity().skip_norm_wip();
            let sti = ex.ty(self_ty);
            let mut o = Obj::new("impl").s("p", &ex.qpath(did)).n("self", sti as i128);
            if of_trait {
                if let Some(tref) = tcx.impl_opt_trait_ref(did) {
                    let tref = tref.instantiate_identity().skip_norm_wip();
                    o = o.s("trait", &ex.qpath(tref.def_id));
                }
            }
            let items: Vec<String> = tcx
                .associated_items(did)
                .in_definition_order()
                // (the synthesized associated types of `async fn` / `impl Trait` in traits have no name)
                .filter(|it| !it.is_impl_trait_in_trait())
                .map(|it| Obj::new("item").s("name", it.name().as_str()).s("p", &ex.qpath(it.def_id)).end())
                .collect();
            let (pos, mx) = ex.span(tcx.def_span(did));
            o = o.raw("sp", &pos);
            if let Some(m) = mx {
                o = o.raw("mx", &m);
            }
            impls.push(o.arr("items", items).end());
        }
    }

    let files: Vec<String> = ex.files.iter().map(|f| esc(f)).collect();
    format!(
        "{{\"crate\":{},\"files\":{},\"types\":[{}],\"adts\":[{}],\"impls\":[{}],\"bodies\":[\n{}\n]}}\n",
        esc(&crate_name),
        arr(files),
        ex.types.join(","),
        adts.join(",\n"),
        impls.join(",\n"),
        bodies.join(",\n")
    )
}

struct Cb;

impl rustc_driver::Callbacks for Cb {
    fn after_analysis<'tcx>(
        &mut self,
        _compiler: &rustc_interface::interface::Compiler,
        tcx: TyCtxt<'tcx>,
    ) -> Compilation {
        let name = tcx.crate_name(LOCAL_CRATE).to_string();
        if !CRATES.contains(&name.as_str()) {
            return Compilation::Continue;
        }
        let out_dir = match std::env::var("SPLINT_OUT") {
            Ok(d) => d,
            Err(_) => return Compilation::Continue,
        };
        // only the primary (non-test, lib/bin) unit unless asked otherwise
        let is_test = tcx.sess.is_test_crate();
        let json = export(tcx);
        let crate_types: Vec<String> = tcx.crate_types().iter().map(|t| format!("{:?}", t)).collect();
        let fname = format!(
            "{}/{}-{}{}-{}.json",
            out_dir,
            name,
            crate_types.join("_"),
            if is_test { "-test" } else { "" },
            std::process::id()
        );
        std::fs::write(&fname, json).expect("splint: cannot write fact file");
        Compilation::Continue
    }
}

fn main() {
    let mut args: Vec<String> = std::env::args().collect();
    // RUSTC_WORKSPACE_WRAPPER passes the real rustc path as argv[1]
    if args.len() > 1 && (args[1].ends_with("rustc") || args[1].contains("/rustc")) {
        args.remove(1);
    }
    rustc_driver::run_compiler(&args, &mut Cb);
}
